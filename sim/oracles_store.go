package main

// Oracles C15 (definitions/bindings/indexes) and C18 (identifiers, key grammar, scans).

import (
	"bytes"
	"encoding/binary"
	"encoding/json"
	"fmt"
	"sort"
	"strings"

	gogotypes "github.com/gogo/protobuf/types"

	sdk "github.com/cosmos/cosmos-sdk/types"

	"github.com/irismod/service/types"
)

func init() {
	oracleTable["C15"] = oracleC15
	oracleTable["C18"] = oracleC18
}

func rawValue(s *Snap, key []byte) []byte {
	i := sort.Search(len(s.Raw), func(i int) bool { return bytes.Compare(s.Raw[i].K, key) >= 0 })
	if i < len(s.Raw) && bytes.Equal(s.Raw[i].K, key) {
		return s.Raw[i].V
	}
	return nil
}

func pricingMatches(p *types.Pricing, hp *HPricing) string {
	amt := p.Price.AmountOf(hp.Denom)
	if amt.BigInt().Cmp(hp.Base) != 0 {
		return fmt.Sprintf("stored price %s, text says %s", p.Price, hp.Base)
	}
	if len(p.Price) > 1 {
		return "stored price has several coins"
	}
	if len(p.Price) == 1 && p.Price[0].Denom != hp.Denom {
		// price terms are kept in the min unit of the pricing token, whatever the amount (also zero)
		return fmt.Sprintf("stored price %s is not denominated in %s, the min unit of the published price", p.Price, hp.Denom)
	}
	if len(p.PromotionsByTime) != len(hp.ByTime) || len(p.PromotionsByVolume) != len(hp.ByVol) {
		return "number of promotions differs"
	}
	for i, w := range hp.ByTime {
		s := p.PromotionsByTime[i]
		if !s.StartTime.Equal(w.Start) || !s.EndTime.Equal(w.End) || decRat(s.Discount).Cmp(w.Discount) != 0 {
			return fmt.Sprintf("time promotion %d differs", i)
		}
	}
	for i, v := range hp.ByVol {
		s := p.PromotionsByVolume[i]
		if s.Volume != v.Volume || decRat(s.Discount).Cmp(v.Discount) != 0 {
			return fmt.Sprintf("volume promotion %d differs", i)
		}
	}
	return ""
}

func oracleC15(x *Exec, r *StepRec) {
	if r.Kind == "msgfail" || r.Kind == "modfail" || r.Kind == "commit" || r.Kind == "begin" {
		return
	}
	pre, post := r.Pre, r.Post
	for _, e := range post.ParseErrs {
		if strings.HasPrefix(e, "0x01") || strings.HasPrefix(e, "0x02") || strings.HasPrefix(e, "0x03") || strings.HasPrefix(e, "0x04") || strings.HasPrefix(e, "0x05") || strings.HasPrefix(e, "0x06") {
			x.viol("C15", "key_value", fmt.Sprintf("after %s: %s", describeStep(r), e), nil)
			return
		}
	}
	// definitions never change or disappear
	names := make([]string, 0, len(x.tr.DefBytes))
	for n := range x.tr.DefBytes {
		names = append(names, n)
	}
	sort.Strings(names)
	for _, n := range names {
		cur := rawValue(post, append([]byte{0x01}, []byte(n)...))
		if cur == nil {
			x.viol("C15", "definition_changed", fmt.Sprintf("%s: definition %q disappeared", describeStep(r), n), nil)
			return
		}
		if !bytes.Equal(cur, x.tr.DefBytes[n]) {
			x.viol("C15", "definition_changed", fmt.Sprintf("%s: definition %q changed", describeStep(r), n), nil)
			return
		}
	}
	if r.Kind == "msg" && r.Msg.T == "define" {
		if _, had := pre.Defs[r.Msg.Svc]; had {
			x.viol("C15", "duplicate_definition", fmt.Sprintf("second definition of %q accepted", r.Msg.Svc), nil)
			return
		}
		x.stats.inc("probe_define_ok")
	}
	if r.Kind == "msg" && r.Msg.T == "bind" {
		if _, had := pre.Bindings[bkey(r.Msg.Svc, resolveAddr(r.Msg.Prov))]; had {
			x.viol("C15", "duplicate_binding", "second binding of the same service and provider accepted", nil)
			return
		}
	}
	// binding identity
	for _, bk := range pre.BindingKeys() {
		ob := pre.Bindings[bk]
		nb, ok := post.Bindings[bk]
		if !ok {
			x.viol("C15", "binding_identity", fmt.Sprintf("%s: binding %s disappeared", describeStep(r), bkShow(bk)), nil)
			return
		}
		if ob.ServiceName != nb.ServiceName || !bytes.Equal(ob.Provider, nb.Provider) || !bytes.Equal(ob.Owner, nb.Owner) {
			x.viol("C15", "binding_identity", fmt.Sprintf("%s: identity of binding %s changed", describeStep(r), bkShow(bk)), nil)
			return
		}
	}
	wantOB := map[string]bool{}
	wantOP := map[string]bool{}
	for _, bk := range post.BindingKeys() {
		b := post.Bindings[bk]
		if _, ok := post.Defs[b.ServiceName]; !ok {
			x.viol("C15", "binding_undefined_service", fmt.Sprintf("binding %s for an undefined service", bkShow(bk)), nil)
			return
		}
		o, ok := post.OwnerOf[hx(b.Provider)]
		if !ok || !bytes.Equal(o, b.Owner) {
			x.viol("C15", "owner_index", fmt.Sprintf("after %s: provider %x of binding %s has owner record %x, binding says %x", describeStep(r), []byte(b.Provider), bkShow(bk), o, []byte(b.Owner)), nil)
			return
		}
		if lo, ok := x.tr.ProviderOwner[hx(b.Provider)]; ok && !bytes.Equal(lo, b.Owner) {
			x.viol("C15", "owner_index", fmt.Sprintf("provider %x changed owner", []byte(b.Provider)), nil)
			return
		}
		if len(b.Owner) == 20 {
			wantOB[hx(b.Owner)+"|"+b.ServiceName+"|"+hx(b.Provider)] = true
			wantOP[hx(b.Owner)+"|"+hx(b.Provider)] = true
		}
		p, ok := post.Pricing[bk]
		if !ok {
			x.viol("C15", "pricing_index", fmt.Sprintf("after %s: binding %s has no stored price terms", describeStep(r), bkShow(bk)), nil)
			return
		}
		hp, err := ParseHPricing(b.Pricing)
		if err != nil {
			x.viol("C15", "pricing_index", fmt.Sprintf("binding %s: pricing text unreadable: %v", bkShow(bk), err), nil)
			return
		}
		if d := pricingMatches(p, hp); d != "" {
			x.viol("C15", "pricing_index", fmt.Sprintf("after %s: binding %s: %s (text %s)", describeStep(r), bkShow(bk), d, b.Pricing), nil)
			return
		}
	}
	for _, k := range sortedKeys(post.OwnerBind) {
		if !wantOB[k] {
			x.viol("C15", "owner_index", fmt.Sprintf("after %s: owner-binding index entry %s has no binding", describeStep(r), k), nil)
			return
		}
	}
	for _, k := range sortedKeys(wantOB) {
		if !post.OwnerBind[k] {
			x.viol("C15", "owner_index", fmt.Sprintf("after %s: binding %s missing from the owner-binding index", describeStep(r), k), nil)
			return
		}
	}
	for _, k := range sortedKeys(post.OwnerProv) {
		if !wantOP[k] {
			x.viol("C15", "owner_index", fmt.Sprintf("owner-provider index entry %s has no binding", k), nil)
			return
		}
	}
	for _, k := range sortedKeys(wantOP) {
		if !post.OwnerProv[k] {
			x.viol("C15", "owner_index", fmt.Sprintf("after %s: provider %s missing from the owner-provider index", describeStep(r), k), nil)
			return
		}
	}
	for _, k := range sortedKeys(keysOfPricing(post)) {
		if _, ok := post.Bindings[k]; !ok {
			x.viol("C15", "pricing_index", "stored price terms without a binding", nil)
			return
		}
	}
	// validity rules of the module itself, for records that changed in this step
	for name, d := range post.Defs {
		key := append([]byte{0x01}, []byte(name)...)
		if !bytes.Equal(rawValue(pre, key), rawValue(post, key)) {
			if err := d.Validate(); err != nil {
				x.viol("C15", "invalid_record", fmt.Sprintf("stored definition %q invalid: %v", name, err), nil)
				return
			}
		}
	}
	for _, bk := range post.BindingKeys() {
		key := append([]byte{0x02}, []byte(post.BindKeys[bk])...)
		if !bytes.Equal(rawValue(pre, key), rawValue(post, key)) {
			if err := post.Bindings[bk].Validate(); err != nil {
				x.viol("C15", "invalid_record", fmt.Sprintf("after %s: stored binding %s invalid: %v", describeStep(r), bkShow(bk), err), nil)
				return
			}
		}
	}
	// listings (keeper scans through the gRPC query server) = raw filter
	if r.Kind == "end" {
		ctx := x.H().Ctx()
		k := x.H().app.ServiceKeeper
		owners := map[string]bool{"": true}
		for _, bk := range post.BindingKeys() {
			owners[hx(post.Bindings[bk].Owner)] = true
		}
		svcs := map[string]bool{"nosuchsvc": true}
		for n := range post.Defs {
			svcs[n] = true
		}
		for _, svc := range sortedKeys(svcs) {
			for _, oh := range sortedKeys(owners) {
				ob, _ := hexDecode(oh)
				var want []string
				for _, bk := range post.BindingKeys() {
					b := post.Bindings[bk]
					if b.ServiceName == svc && (oh == "" || bytes.Equal(b.Owner, ob)) {
						bz, _ := b.Marshal()
						want = append(want, string(bz))
					}
				}
				resp, err := k.Bindings(sdk.WrapSDKContext(ctx), &types.QueryBindingsRequest{ServiceName: svc, Owner: ob})
				if err != nil {
					x.viol("C15", "listing", fmt.Sprintf("listing bindings of %q failed: %v", svc, err), nil)
					return
				}
				var got []string
				for _, b := range resp.ServiceBindings {
					bz, _ := b.Marshal()
					got = append(got, string(bz))
				}
				sort.Strings(want)
				sort.Strings(got)
				if fmt.Sprint(len(want), want) != fmt.Sprint(len(got), got) {
					x.viol("C15", "listing", fmt.Sprintf("height %d: listing bindings of service %q owner %q returned %d record(s), the store holds %d", post.Height, svc, oh, len(got), len(want)), nil)
					return
				}
				x.stats.inc("probe_listing_checked")
			}
		}
	}
}

func keysOfPricing(s *Snap) map[string]bool {
	m := map[string]bool{}
	for k := range s.Pricing {
		m[k] = true
	}
	return m
}

// ---- C18 -------------------------------------------------------------------------------------------

func oracleC18(x *Exec, r *StepRec) {
	if r.Kind == "msgfail" || r.Kind == "modfail" || r.Kind == "commit" {
		return
	}
	pre, post := r.Pre, r.Post
	if len(post.ParseErrs) > 0 {
		x.viol("C18", "key_grammar", fmt.Sprintf("after %s: %s", describeStep(r), post.ParseErrs[0]), nil)
		return
	}
	// new context ids
	for _, id := range post.CtxIDs() {
		if _, old := pre.Ctx[id]; old {
			continue
		}
		var hash []byte
		var idx int64
		switch r.Kind {
		case "msg":
			hash = txHashOf(r.Tx)
			idx = r.Tx.MsgIndexBase + int64(r.MsgIdx)
		case "mod":
			hash = modHash(r.Mod)
		default:
			x.viol("C18", "context_id", fmt.Sprintf("context %s appeared in %s", id[:12], describeStep(r)), nil)
			return
		}
		want := make([]byte, 40)
		copy(want, hash)
		binary.BigEndian.PutUint64(want[32:], uint64(idx))
		if id != hx(want) {
			x.viol("C18", "context_id", fmt.Sprintf("context id %s does not encode tx hash %x and msg index %d", id, hash, idx), nil)
			return
		}
		th, mi, err := types.SplitRequestContextID(want)
		if err != nil || !bytes.Equal(th, hash) || mi != idx {
			x.viol("C18", "context_id", fmt.Sprintf("context id %s does not split back to (%x,%d)", id, hash, idx), nil)
			return
		}
		if x.tr.AllCtxIDs[id] {
			x.viol("C18", "id_collision", fmt.Sprintf("context id %s issued twice", id), nil)
			return
		}
		x.stats.inc("probe_context_id_checked")
	}
	// new request ids
	evByCtx := map[string][]json.RawMessage{}
	if r.Kind == "end" {
		for _, e := range r.Events {
			if e.Type != types.EventTypeNewBatchRequest {
				continue
			}
			var arr []json.RawMessage
			if err := json.Unmarshal([]byte(e.Get(types.AttributeKeyRequests)), &arr); err != nil {
				x.viol("C18", "id_event_position", "new_batch_request event unreadable", nil)
				return
			}
			cid := lowerHex(e.Get(types.AttributeKeyRequestContextID))
			if _, dup := evByCtx[cid]; dup {
				x.viol("C18", "id_event_position", fmt.Sprintf("two new_batch_request events for context %s in one block", cid[:12]), nil)
				return
			}
			evByCtx[cid] = arr
		}
	}
	newReqs := newRequestsByCtx(pre, post)
	cids := make([]string, 0, len(newReqs))
	for cid := range newReqs {
		cids = append(cids, cid)
	}
	sort.Strings(cids)
	for _, cid := range cids {
		c := post.Ctx[cid]
		for _, rid := range newReqs[cid] {
			idb, _ := hexDecode(rid)
			q := post.Req[rid]
			cb, batch, height, index, ok := splitReqID(idb)
			if !ok {
				x.viol("C18", "request_id", fmt.Sprintf("request id %s has length %d", rid, len(idb)), nil)
				return
			}
			if hx(cb) != cid || batch != q.RequestContextBatchCounter || height != q.RequestHeight || height != post.Height || (c != nil && batch != c.BatchCounter) {
				x.viol("C18", "request_id", fmt.Sprintf("request id %s encodes (ctx %s, batch %d, height %d); record says (ctx %s, batch %d, height %d), block height %d", rid, hx(cb)[:12], batch, height, cid[:12], q.RequestContextBatchCounter, q.RequestHeight, post.Height), nil)
				return
			}
			c2, b2, h2, i2, err := types.SplitRequestID(idb)
			if err != nil || !bytes.Equal(c2, cb) || b2 != batch || h2 != height || int(i2) != index {
				x.viol("C18", "request_id", fmt.Sprintf("request id %s does not split back", rid), nil)
				return
			}
			// the textual form clients pass around converts back to the same id
			if cv, err := types.ConvertRequestID(strings.ToUpper(rid)); err != nil || !bytes.Equal(cv, idb) {
				x.viol("C18", "request_id", fmt.Sprintf("request id %s does not convert back from its hex form", rid), nil)
				return
			}
			if x.tr.AllReqIDs[rid] {
				x.viol("C18", "id_collision", fmt.Sprintf("request id %s issued twice", rid), nil)
				return
			}
			if r.Kind == "end" {
				arr := evByCtx[cid]
				if index < 0 || index >= len(arr) {
					x.viol("C18", "id_event_position", fmt.Sprintf("request %s has index %d but its batch's issue event lists %d request(s)", rid[:12], index, len(arr)), nil)
					return
				}
				stored, _ := json.Marshal(*q)
				var a, b interface{}
				json.Unmarshal(stored, &a)
				json.Unmarshal(arr[index], &b)
				if fmt.Sprint(a) != fmt.Sprint(b) {
					x.viol("C18", "id_event_position", fmt.Sprintf("request %s (index %d): issue event entry %s != stored record %s", rid[:12], index, arr[index], stored), nil)
					return
				}
				x.stats.inc("probe_request_id_checked")
			}
		}
		if r.Kind == "end" && len(evByCtx[cid]) != len(newReqs[cid]) {
			x.viol("C18", "id_event_position", fmt.Sprintf("context %s: %d requests issued, event lists %d", cid[:12], len(newReqs[cid]), len(evByCtx[cid])), nil)
			return
		}
	}
	// key <-> value agreement beyond what the parser checks
	for _, rid := range post.ReqIDs() {
		idb, _ := hexDecode(rid)
		q := post.Req[rid]
		cb, batch, height, _, ok := splitReqID(idb)
		if !ok || !bytes.Equal(cb, q.RequestContextId) || batch != q.RequestContextBatchCounter || height != q.RequestHeight {
			x.viol("C18", "key_value", fmt.Sprintf("request key %s disagrees with its record", rid), nil)
			return
		}
	}
	for _, e := range post.Earned {
		dl := len(e.Coin.Denom)
		if len(e.KeyRest) <= dl {
			continue
		}
		prov := e.KeyRest[:len(e.KeyRest)-dl]
		if _, ok := post.OwnerOf[hx(prov)]; !ok {
			x.viol("C18", "key_value", fmt.Sprintf("earnings key for %x: no such provider", prov), c13Attrs(x, post))
			return
		}
	}
	if r.Kind == "end" {
		x.checkScans(r)
	}
}

func lowerHex(s string) string {
	b := []byte(s)
	for i, c := range b {
		if c >= 'A' && c <= 'F' {
			b[i] = c + 32
		}
	}
	return string(b)
}

// checkScans: every prefix scan the keeper exposes returns exactly the records of its subject.
func (x *Exec) checkScans(r *StepRec) {
	s := r.Post
	ctx := x.H().Ctx()
	k := x.H().app.ServiceKeeper
	fail := func(which, detail string) {
		x.viol("C18", "scan_"+which, fmt.Sprintf("height %d: %s", s.Height, detail), c13Attrs(x, s))
	}
	// bindings by service
	for _, svc := range append(sortedDefNames(s), "zz-none") {
		it := k.ServiceBindingsIterator(ctx, svc)
		n := 0
		for ; it.Valid(); it.Next() {
			var b types.ServiceBinding
			if err := b.Unmarshal(it.Value()); err != nil || b.ServiceName != svc {
				it.Close()
				fail("bindings_by_service", fmt.Sprintf("scan of service %q returned a binding of %q", svc, b.ServiceName))
				return
			}
			n++
		}
		it.Close()
		want := 0
		for _, bk := range s.BindingKeys() {
			if s.Bindings[bk].ServiceName == svc {
				want++
			}
		}
		if n != want {
			fail("bindings_by_service", fmt.Sprintf("scan of service %q returned %d bindings, store holds %d", svc, n, want))
			return
		}
	}
	// owner's providers, owner's bindings, earnings
	owners := map[string]bool{}
	provs := map[string]bool{}
	for _, bk := range s.BindingKeys() {
		b := s.Bindings[bk]
		owners[hx(b.Owner)] = true
		provs[hx(b.Provider)] = true
	}
	for _, oh := range sortedKeys(owners) {
		ob, _ := hexDecode(oh)
		if len(ob) != 20 {
			continue
		}
		it := k.OwnerProvidersIterator(ctx, ob)
		got := map[string]bool{}
		for ; it.Valid(); it.Next() {
			got[hx(it.Key()[21:])] = true
		}
		it.Close()
		want := map[string]bool{}
		for ph, o := range s.OwnerOf {
			if bytes.Equal(o, ob) {
				want[ph] = true
			}
		}
		if fmt.Sprint(sortedKeys(got)) != fmt.Sprint(sortedKeys(want)) {
			fail("owner_providers", fmt.Sprintf("providers of owner %s: scan %v, store %v", addrName(oh), sortedKeys(got), sortedKeys(want)))
			return
		}
		for _, svc := range sortedDefNames(s) {
			bs := k.GetOwnerServiceBindings(ctx, ob, svc)
			want := 0
			for _, bk := range s.BindingKeys() {
				b := s.Bindings[bk]
				if b.ServiceName == svc && bytes.Equal(b.Owner, ob) {
					want++
				}
			}
			seen := map[string]bool{}
			for _, b := range bs {
				if b.ServiceName != svc || !bytes.Equal(b.Owner, ob) {
					fail("bindings_by_owner", fmt.Sprintf("bindings of owner %s for %q returned a foreign binding", addrName(oh), svc))
					return
				}
				seen[hx(b.Provider)] = true
			}
			if len(seen) != want || len(bs) != want {
				fail("bindings_by_owner", fmt.Sprintf("bindings of owner %s for %q: scan %d, store %d", addrName(oh), svc, len(bs), want))
				return
			}
		}
		fees, _ := k.GetOwnerEarnedFees(ctx, ob)
		var wantFee int64
		if c, ok := s.OwnerEarned[oh]; ok {
			wantFee = c.Amount.Int64()
		}
		if coinsStake(fees) != wantFee {
			fail("earnings_by_owner", fmt.Sprintf("earnings of owner %s: scan %s, store %d", addrName(oh), fees, wantFee))
			return
		}
	}
	for _, ph := range sortedKeys(provs) {
		pb, _ := hexDecode(ph)
		fees, _ := k.GetEarnedFees(ctx, pb)
		if want := s.EarnedOf(pb); coinsStake(fees) != want {
			fail("earnings_by_provider", fmt.Sprintf("earnings of provider %s: scan returns %s, its record holds %d", ph, fees, want))
			return
		}
	}
	// pending requests by binding
	for _, bk := range s.BindingKeys() {
		b := s.Bindings[bk]
		it := k.ActiveRequestsIterator(ctx, b.ServiceName, b.Provider)
		got := map[string]bool{}
		for ; it.Valid(); it.Next() {
			var id gogotypes.BytesValue
			id.Unmarshal(it.Value())
			got[hx(id.Value)] = true
		}
		it.Close()
		want := map[string]bool{}
		bech := sdk.AccAddress(b.Provider).String()
		for _, a := range s.Active14 {
			if a.Svc == b.ServiceName && a.Prov == bech {
				want[a.ReqID] = true
			}
		}
		if fmt.Sprint(sortedKeys(got)) != fmt.Sprint(sortedKeys(want)) {
			fail("active_by_binding", fmt.Sprintf("pending requests of binding %s: scan %d, store %d", bkShow(bk), len(got), len(want)))
			return
		}
	}
	// per context and batch: pending, requests, responses
	for _, cid := range s.CtxIDs() {
		c := s.Ctx[cid]
		cb, _ := hexDecode(cid)
		for _, batch := range []uint64{c.BatchCounter, c.BatchCounter + 1, 0} {
			reqs, resps := batchRecords(s, cid, batch)
			it := k.RequestsIteratorByReqCtx(ctx, cb, batch)
			n := 0
			for ; it.Valid(); it.Next() {
				n++
			}
			it.Close()
			if n != len(reqs) {
				fail("requests_by_context", fmt.Sprintf("requests of context %s batch %d: scan %d, store %d", cid[:12], batch, n, len(reqs)))
				return
			}
			it = k.ResponsesIteratorByReqCtx(ctx, cb, batch)
			n = 0
			for ; it.Valid(); it.Next() {
				n++
			}
			it.Close()
			if n != len(resps) {
				fail("responses_by_context", fmt.Sprintf("responses of context %s batch %d: scan %d, store %d", cid[:12], batch, n, len(resps)))
				return
			}
			it = k.ActiveRequestsIteratorByReqCtx(ctx, cb, batch)
			n = 0
			for ; it.Valid(); it.Next() {
				n++
			}
			it.Close()
			want := 0
			for _, rid := range reqs {
				if s.Active15[rid] {
					want++
				}
			}
			if n != want {
				fail("active_by_context", fmt.Sprintf("pending requests of context %s batch %d: scan %d, store %d", cid[:12], batch, n, want))
				return
			}
		}
	}
	x.stats.inc("probe_scans_checked")
}

func sortedDefNames(s *Snap) []string {
	out := make([]string, 0, len(s.Defs))
	for n := range s.Defs {
		out = append(out, n)
	}
	sort.Strings(out)
	return out
}
