package main

import (
	"fmt"

	"github.com/irismod/service/types"
)

// genericProbes: reach counters and the abstract state/transition measure, independent of which oracle is armed.
func (x *Exec) genericProbes(r *StepRec) {
	pre, post := r.Pre, r.Post
	st := x.stats
	switch r.Kind {
	case "msg":
		st.inc("ok_" + r.Msg.T)
		if r.Msg.T == "respond" {
			st.inc("g_resp_" + outputKind(r.Msg.Output))
		}
	case "mod":
		st.inc("ok_mod_" + r.Mod.T)
	case "end":
		nr := 0
		for rid := range post.Req {
			if _, old := pre.Req[rid]; !old {
				nr++
			}
		}
		st.add("g_requests_issued", nr)
		ne := 0
		for rid := range pre.Active15 {
			if !post.Active15[rid] {
				ne++
			}
		}
		st.add("g_requests_expired", ne)
		if x.cfg.MultiToken {
			// multi-token reach: batches due in this block whose candidates publish a foreign-token price
			for id, h := range pre.NewH {
				pc, ok := pre.Ctx[id]
				if !ok || h != post.Height || pc.State != types.RUNNING {
					continue
				}
				foreign, noRate := false, false
				for _, p := range pc.Providers {
					b, ok := post.Bindings[bkey(pc.ServiceName, p)]
					if !ok || !b.Available || b.QoS > uint64(pc.Timeout) {
						continue
					}
					if hp, err := ParseHPricing(b.Pricing); err == nil && hp.Foreign() {
						foreign = true
						if rateFor(post.Rates, hp.Denom) == nil {
							noRate = true
						}
					}
				}
				if noRate {
					st.inc("g_batch_due_without_exchange_rate")
				} else if foreign {
					st.inc("g_batch_due_with_foreign_pricing")
				}
			}
			for rid, q := range post.Req {
				if _, old := pre.Req[rid]; !old && len(q.ServiceFee) == 1 {
					if c, ok := post.Ctx[hx(q.RequestContextId)]; ok {
						if b, ok := post.Bindings[bkey(c.ServiceName, q.Provider)]; ok {
							if hp, err := ParseHPricing(b.Pricing); err == nil && hp.Foreign() {
								st.inc("g_request_priced_through_exchange_rate")
							}
						}
					}
				}
			}
		}
		for id, pc := range pre.Ctx {
			qc, ok := post.Ctx[id]
			if !ok {
				st.inc("g_ctx_removed")
				continue
			}
			if pc.State == types.RUNNING && qc.State == types.PAUSED {
				st.inc("g_paused_for_funds")
			}
			if qc.BatchCounter > pc.BatchCounter {
				if qc.BatchRequestCount == 0 {
					st.inc("g_batch_skipped")
				}
				if qc.BatchCounter == 256 {
					st.inc("g_batch_counter_passed_255")
				}
				if qc.BatchCounter >= 2 {
					st.inc("g_second_batch")
				}
			}
		}
	}
	if len(r.Callbacks) > 0 {
		st.add("g_callback", len(r.Callbacks))
	}
	if r.Kind == "msg" || r.Kind == "end" {
		for bk, ob := range pre.Bindings {
			if nb, ok := post.Bindings[bk]; ok && coinsStake(nb.Deposit) < coinsStake(ob.Deposit) && !(r.Kind == "msg" && r.Msg.T == "refund") {
				st.inc("g_slash")
			}
		}
	}
	// abstract states and transitions
	verb := stepVerb(r)
	named := x.namedCtx(r)
	for id, qc := range post.Ctx {
		a := absCtx(post, id, qc)
		st.States[a] = true
		if pc, ok := pre.Ctx[id]; ok {
			b := absCtx(pre, id, pc)
			if a != b || id == named {
				st.Trans[b+">"+verb+">"+a] = true
			}
		} else {
			st.Trans["new>"+verb+">"+a] = true
		}
	}
	for id, pc := range pre.Ctx {
		if _, ok := post.Ctx[id]; !ok {
			st.Trans[absCtx(pre, id, pc)+">"+verb+">gone"] = true
		}
	}
}

func absCtx(s *Snap, id string, c *types.RequestContext) string {
	_, e := s.ExpH[id]
	_, n := s.NewH[id]
	rr := "none"
	switch {
	case c.BatchRequestCount == 0:
		rr = "noreq"
	case c.BatchResponseCount == 0:
		rr = "0"
	case c.BatchResponseCount < c.BatchRequestCount:
		rr = "some"
	default:
		rr = "all"
	}
	own := "user"
	if c.ModuleName != "" {
		own = "module"
	}
	last := "mid"
	if !c.Repeated {
		last = "oneshot"
	} else if c.RepeatedTotal > 0 && int64(c.BatchCounter) >= c.RepeatedTotal {
		last = "final"
	} else if c.BatchCounter == 0 {
		last = "fresh"
	}
	return fmt.Sprintf("%s/%s/%s/e%v/n%v/%s/%s/sup%v", c.State, c.BatchState, last, e, n, rr, own, c.SuperMode)
}
