#!/bin/bash
# usage: tools/try_patch_scratch.sh <patch.diff> <property> [runs] [R]
# Applies a source change (R = reverse-applies it) to a scratch worktree of /repo's HEAD outside /repo and /verif, runs
# the property's quick check against that worktree (VERIF_REPO), prints the output, removes the worktree.
# /repo itself is never touched, so several of these can run side by side.
set -u
patch="$(readlink -f "$1")"; prop="$2"; runs="${3:-1200}"; rev="${4:-}"
wt="/tmp/tps-$$-$prop"
git -C /repo worktree add -q --detach "$wt" HEAD || exit 3
trap 'git -C /repo worktree remove --force "'"$wt"'" 2>/dev/null; rm -rf "'"$wt"'"' EXIT
if [ "$rev" = "R" ]; then git -C "$wt" apply -R "$patch" || { echo "patch does not reverse-apply" >&2; exit 3; }
else git -C "$wt" apply "$patch" || { echo "patch does not apply" >&2; exit 3; }; fi
cd /verif && VERIF_REPO="$wt" VERIF_RUNS=$runs VERIF_NO_EVIDENCE=1 ./check.sh "$prop" quick
echo "exit=$?"
