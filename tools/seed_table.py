#!/usr/bin/env python3
import json,glob
rows=[]
for f in sorted(glob.glob('/verif/seeded/*/meta.json')):
    m=json.load(open(f))
    rows.append(f"| {m['id']} | {', '.join(m['files_changed'])} | {'yes' if m['detected'] else 'NO'} | {', '.join(m['detected_by_rules'])} | {m.get('runs_until_stop')} | {m.get('wall_s')} |")
print("| seed | files changed | detected by target quick check | rule(s) | runs until stop | wall s |\n|---|---|---|---|---|---|")
print("\n".join(rows))
