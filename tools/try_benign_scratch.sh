#!/bin/bash
# usage: tools/try_benign_scratch.sh <id> <patch.diff> [runs] — like try_benign.sh but on a scratch worktree of /repo
# (VERIF_REPO), so that /repo itself stays free. The worktree is removed afterwards.
set -u
id="$1"; patch="$2"; runs="${3:-300}"
wt="/tmp/bw-$id"
git -C /repo worktree add -q --detach "$wt" HEAD || exit 3
trap 'git -C /repo worktree remove --force "'"$wt"'"' EXIT
( cd "$wt" && git apply "$patch" ) || { echo "patch does not apply"; exit 3; }
cd /verif
for p in C01 C02 C03 C04 C05 C06 C07 C08 C09 C10 C11 C12 C13 C14 C15 C16 C17 C18 C19 C20; do
  r=$runs; [ $p = C17 ] && r=$((runs/3))
  out=$(VERIF_REPO="$wt" VERIF_RUNS=$r VERIF_WORKERS=8 ./check.sh $p quick 2>&1); rc=$?
  echo "$id $p rc=$rc $(echo "$out" | grep -E '^violation|INTERNAL|BUILD' | head -2 | cut -c1-300)"
done
