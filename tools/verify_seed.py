#!/usr/bin/env python3
"""usage: verify_seed.py <Cxx> <A|B>
Confirms a sub-agent's seeded change in its scratch worktree /tmp/wt-Cxx:
 (a) builds, (b) existing tests pass with the change, (c) demo test fails with it, (d) demo test passes without it.
Prints a JSON verdict."""
import os, re, subprocess, sys, json, shutil
prop, var = sys.argv[1], sys.argv[2]
wt = f"/tmp/wt2-{prop}" if var in "CD" else f"/tmp/wt-{prop}"
out = f"/tmp/seedout2-{prop}" if var in "CD" else f"/tmp/seedout-{prop}"
if var in "MN":
    wt = f"/tmp/wt7-{prop}"; out = f"/tmp/seedout7-{prop}"
if prop.startswith("T"):
    wt = f"/tmp/wt3-{prop}"; out = f"/tmp/seedout3-{prop}"
if prop.startswith("S"):
    wt = f"/tmp/wt4-{prop}"; out = f"/tmp/seedout4-{prop}"
if prop.startswith("U"):
    wt = f"/tmp/wt5-{prop}"; out = f"/tmp/seedout5-{prop}"
if prop.startswith("V"):
    wt = f"/tmp/wt8-{prop}"; out = f"/tmp/seedout8-{prop}"
if prop.startswith("W"):
    wt = f"/tmp/wt9-{prop}"; out = f"/tmp/seedout9-{prop}"
if prop.startswith("R"):
    wt = f"/tmp/wt13-{prop}"; out = f"/tmp/seedout13-{prop}"
if prop.startswith("Q"):
    wt = f"/tmp/wt12-{prop}"; out = f"/tmp/seedout12-{prop}"
if prop.startswith("Z"):
    wt = f"/tmp/wt11-{prop}"; out = f"/tmp/seedout11-{prop}"
if prop.startswith("Y"):
    wt = f"/tmp/wt10-{prop}"; out = f"/tmp/seedout10-{prop}"
env = dict(os.environ, GOFLAGS="-mod=mod", GOPROXY="off", GOSUMDB="off", GOTOOLCHAIN="local")
def run(cmd, cwd=wt):
    p = subprocess.run(cmd, cwd=cwd, shell=True, env=env, capture_output=True, text=True, errors="replace")
    return p.returncode, (p.stdout + p.stderr)[-3000:]
if os.path.isdir(f"{wt}/out"):
    if os.path.isdir(out): shutil.rmtree(out)
    shutil.move(f"{wt}/out", out)
run("git checkout -- . && git clean -fdq")
patch = f"{out}/{var}.patch.diff"; demo = f"{out}/{var}_demo_test.go"
src = open(demo).read()
pkg = re.search(r'^package\s+(\w+)', src, re.M).group(1)
d = {"keeper_test": "keeper", "keeper": "keeper", "service_test": ".", "service": ".", "types_test": "types", "types": "types"}[pkg]
mdir = re.match(r'//\s*dir:\s*(\S+)', src)
if mdir:
    d = mdir.group(1)
tests = re.findall(r'^func (Test\w+)\(', src, re.M)
suite = re.findall(r'^func \(\w+ \*?(\w+)\) (Test\w+)\(', src, re.M)
res = {"property": prop, "variant": var, "demo_dir": d, "tests": tests, "suite_tests": suite}
rc, o = run(f"git apply {patch}")
res["apply"] = rc == 0
rc, o = run("go build ./...")
res["a_build"] = rc == 0
rc, o = run("go test -vet=off -count=1 $(go list ./... | grep -v /out$)")
res["b_existing_tests_pass_with_change"] = rc == 0
if rc != 0: res["b_out"] = o[-800:]
target = f"{wt}/{d}/zz_seed_demo_test.go"
shutil.copy(demo, target)
runexpr = "|".join(tests) if tests else "."
rc, o = run(f"go test -vet=off -count=1 -run '^({runexpr})$' .", cwd=f"{wt}/{d}")
res["c_demo_fails_with_change"] = rc != 0 and "FAIL" in o and "build failed" not in o and "cannot" not in o.split("FAIL")[0][-200:]
res["c_tail"] = o[-600:]
run(f"git apply -R {patch}")
rc, o = run(f"go test -vet=off -count=1 -run '^({runexpr})$' .", cwd=f"{wt}/{d}")
res["d_demo_passes_clean"] = rc == 0
if rc != 0: res["d_tail"] = o[-600:]
os.remove(target)
run("git checkout -- . && git clean -fdq")
res["ok"] = all(res[k] for k in ("apply", "a_build", "b_existing_tests_pass_with_change", "c_demo_fails_with_change", "d_demo_passes_clean"))
print(json.dumps(res, indent=1))
