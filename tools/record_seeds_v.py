#!/usr/bin/env python3
"""Records the depth-round (wave 8) seeded changes /tmp/wt8-V*/out (moved to /tmp/seedout8-V*) into /verif/seeded/V<t>-<v>/.
usage: record_seeds_v.py [t ...]   (default: all of 1..10); several t are processed side by side."""
import os, re, subprocess, sys, json, shutil
from concurrent.futures import ThreadPoolExecutor
WAVE = os.environ.get("WAVE", "V"); N = {"V": 8, "W": 9, "Y": 10, "Z": 11, "Q": 12, "R": 13}[WAVE]
SRC = {"V": "independent sub-agent (depth wave: effects that need a sequence of 4-5 operations over several blocks, an exact numeric coincidence, a second occurrence, or a two-party interleaving inside one block) given only two property texts and a scratch worktree", "W": "independent sub-agent (multi-token wave: the violation needs a pricing published in a second token, a particular or changing exchange rate, or a rate-feed outage at a particular moment; single-token behaviour unchanged) given only two property texts, a description of the TokenKeeper / module-service seams and a scratch worktree", "Y": "independent sub-agent (wave 10: cooperating sites, error paths actually taken, queue slips needing several contexts in one height bucket, values computed at one time and used at another, key encoding / cleanup for particular lengths and values, module-owned contexts across restart / import) given three property texts and a scratch worktree", "Z": "independent sub-agent (wave 11, hard mode: told which kinds of edit some two hundred earlier seeds had used and how the harness derives its expectations; asked for rare state combinations, effects only one query route or event shows, arithmetic corners) given two property texts and a scratch worktree", "Q": "independent sub-agent (wave 12: changes that sit in, or only take effect through, the module-service path — MsgCallService to a service reserved by another module, served synchronously by RequestModuleService) given three property texts, a description of that path and a scratch worktree", "R": "independent sub-agent (wave 13, hard mode again, for the properties with the fewest seeds so far) given two property texts and a scratch worktree"}[WAVE]
def one(t):
    res = []
    for var in "JK":
        sid = f"{WAVE}{t}-{var}"
        d = f"/verif/seeded/{sid}"
        if os.path.exists(f"{d}/meta.json"): continue
        src = f"/tmp/seedout{N}-{WAVE}{t}"
        if not os.path.exists(f"{src}/{var}.patch.diff") and not os.path.exists(f"/tmp/wt{N}-{WAVE}{t}/out/{var}.patch.diff"): continue
        ver = json.loads(subprocess.run(["python3", "/verif/tools/verify_seed.py", f"{WAVE}{t}", var], capture_output=True, text=True, errors="replace").stdout)
        patch = f"{src}/{var}.patch.diff"
        notes = open(f"{src}/{var}.md").read()
        prop = re.search(r"PROPERTY:\s*(C\d\d)", notes).group(1)
        os.makedirs(d, exist_ok=True)
        shutil.copy(patch, f"{d}/patch.diff"); shutil.copy(f"{src}/{var}_demo_test.go", f"{d}/demo_test.go")
        open(f"{d}/notes.md", "w").write(notes)
        p = subprocess.run(["/verif/tools/try_patch_scratch.sh", patch, prop, "1200"], capture_output=True, text=True, errors="replace")
        out = p.stdout + p.stderr
        viol = [l for l in out.splitlines() if l.startswith("violation:")]
        runs = re.search(r"runs=(\d+).*wall=([\d.]+)s", out)
        rules = sorted({v.split()[1].rstrip(':').split(';')[0] for v in viol})
        meta = {"id": sid, "property": prop, "source": SRC,
            "files_changed": sorted(set(re.findall(r"^\+\+\+ b/(\S+)", open(patch).read(), re.M))),
            "needs_to_manifest": notes.strip()[:1500],
            "confirmed_in_scratch_worktree": {k: ver.get(k) for k in ("a_build", "b_existing_tests_pass_with_change", "c_demo_fails_with_change", "d_demo_passes_clean")},
            "demo_test_dir": ver.get("demo_dir"),
            "ran": f"tools/try_patch_scratch.sh patch.diff {prop} 1200  (scratch worktree of /repo HEAD + patch, VERIF_REPO, quick check)",
            "detected": bool(viol), "exit_code_line": [l for l in out.splitlines() if l.startswith("exit=")][-1:],
            "detected_by_rules": rules, "first_violation": (viol[0][:600] if viol else None),
            "runs_until_stop": int(runs.group(1)) if runs else None, "wall_s": float(runs.group(2)) if runs else None}
        json.dump(meta, open(f"{d}/meta.json", "w"), indent=1)
        line = f"{sid} {prop} {'DETECTED' if viol else 'MISSED'} {rules} verified={ver.get('ok')}"
        print(line, flush=True); res.append(line)
    return res
WAVE = os.environ.get("WAVE", "V")
ts = [int(a) for a in sys.argv[1:]] or list(range(1, 11))
with ThreadPoolExecutor(3) as ex:
    list(ex.map(one, ts))
