package main

// Snapshot: a full observation of the service store (raw iteration, parsed by the harness's own key grammar —
// DESIGN Appendix A — never through keeper getters), all bank balances, total supply and the params in force.

import (
	"bytes"
	"crypto/sha256"
	"encoding/binary"
	"encoding/hex"
	"fmt"
	"math"
	"sort"
	"time"

	gogotypes "github.com/gogo/protobuf/types"

	sdk "github.com/cosmos/cosmos-sdk/types"
	authtypes "github.com/cosmos/cosmos-sdk/x/auth/types"
	banktypes "github.com/cosmos/cosmos-sdk/x/bank/types"

	"github.com/irismod/service/types"
)

type KV struct{ K, V []byte }

type QEntry struct {
	H  int64
	ID string // hex context id
}

type ActiveKey struct {
	Svc    string
	Prov   string // bech32 as found in the key
	Expiry int64
	ReqID  string // hex
}

type EarnedRec struct {
	KeyRest []byte // key[1:]
	Coin    sdk.Coin
}

type Snap struct {
	Height int64
	Time   time.Time

	Raw []KV

	Defs     map[string]*types.ServiceDefinition
	Bindings map[string]*types.ServiceBinding // bkey(svc, provider bytes)
	BindKeys map[string]string                // bkey -> raw key suffix (name 00 bech32)
	OwnerBind map[string]bool                 // hex(owner20) + "|" + svc + "|" + hex(provider)
	OwnerOf  map[string][]byte               // hex(provider) -> owner
	OwnerProv map[string]bool                // hex(owner20)+"|"+hex(provider)
	Pricing  map[string]*types.Pricing       // bkey
	Withdraw map[string][]byte               // hex(owner) -> addr
	Ctx      map[string]*types.RequestContext
	ExpQ     []QEntry
	NewQ     []QEntry
	ExpH     map[string]int64
	NewH     map[string]int64
	Req      map[string]*types.CompactRequest
	Active14 []ActiveKey
	Active15 map[string]bool
	Resp     map[string]*types.Response
	Vol      map[string]uint64 // consumerBech|svc|provBech
	Earned   []EarnedRec
	OwnerEarned map[string]sdk.Coin // hex(owner)

	Bal    map[string]int64 // hex(addr) -> stake
	OtherDenoms map[string]string // hex(addr) -> coins string of non-stake balances (should stay empty)
	Supply int64
	Params types.Params
	Rates  map[string]string // multi-token runs: the exchange-rate feed in force (harness-side state)

	ParseErrs []string

	digest string
}

func bkey(svc string, provider []byte) string { return svc + "\x00" + hex.EncodeToString(provider) }

func hx(b []byte) string { return hex.EncodeToString(b) }

var (
	depositAcc  = authtypes.NewModuleAddress(types.DepositAccName)
	requestAcc  = authtypes.NewModuleAddress(types.RequestAccName)
	feeCollAcc  = authtypes.NewModuleAddress(authtypes.FeeCollectorName)
	moduleAddrs = map[string]string{}
)

func init() {
	for name := range map[string]bool{
		types.DepositAccName: true, types.RequestAccName: true, authtypes.FeeCollectorName: true,
		"distribution": true, "mint": true, "bonded_tokens_pool": true, "not_bonded_tokens_pool": true, "gov": true, "transfer": true,
	} {
		moduleAddrs[hx(authtypes.NewModuleAddress(name))] = name
	}
}

func (s *Snap) perr(format string, a ...interface{}) {
	if len(s.ParseErrs) < 20 {
		s.ParseErrs = append(s.ParseErrs, fmt.Sprintf(format, a...))
	}
}

// TakeSnapshot reads everything through raw store iteration / the bank keeper on ctx.
func (h *Host) TakeSnapshot(ctx sdk.Context) *Snap {
	s := &Snap{
		Height: ctx.BlockHeight(), Time: ctx.BlockTime(),
		Defs: map[string]*types.ServiceDefinition{}, Bindings: map[string]*types.ServiceBinding{}, BindKeys: map[string]string{},
		OwnerBind: map[string]bool{}, OwnerOf: map[string][]byte{}, OwnerProv: map[string]bool{},
		Pricing: map[string]*types.Pricing{}, Withdraw: map[string][]byte{}, Ctx: map[string]*types.RequestContext{},
		ExpH: map[string]int64{}, NewH: map[string]int64{}, Req: map[string]*types.CompactRequest{},
		Active15: map[string]bool{}, Resp: map[string]*types.Response{}, Vol: map[string]uint64{},
		OwnerEarned: map[string]sdk.Coin{}, Bal: map[string]int64{}, OtherDenoms: map[string]string{},
		Rates: copyRates(h.rates),
	}
	ctx = ctx.WithGasMeter(sdk.NewInfiniteGasMeter())
	store := ctx.KVStore(h.app.GetKey(types.StoreKey))
	it := store.Iterator(nil, nil)
	for ; it.Valid(); it.Next() {
		k := append([]byte{}, it.Key()...)
		v := append([]byte{}, it.Value()...)
		s.Raw = append(s.Raw, KV{k, v})
	}
	it.Close()
	for _, kv := range s.Raw {
		s.parseKV(kv.K, kv.V)
	}
	noteBal := func(addr sdk.AccAddress, c sdk.Coin) bool {
		if c.Denom == "stake" {
			if c.Amount.IsInt64() {
				s.Bal[hx(addr)] = c.Amount.Int64()
			} else if h.cfg.WhaleBalance != "" {
				s.Bal[hx(addr)] = math.MaxInt64 // saturating: whale runs arm no money oracle
				s.OtherDenoms[hx(addr)] = "big:" + c.Amount.String()
			} else {
				s.perr("balance overflow %s", addr)
			}
		} else {
			s.OtherDenoms[hx(addr)] += c.String()
		}
		return false
	}
	func() {
		defer func() {
			if recover() == nil {
				return
			}
			// the bank keeper cannot walk its own store once coins sit at an address shorter than 20 bytes (only
			// code under test that pays a malformed address gets there): read the balances raw instead, so that the
			// oracles see where the money went
			s.Bal, s.OtherDenoms = map[string]int64{}, map[string]string{}
			bit := sdk.KVStorePrefixIterator(ctx.KVStore(h.app.GetKey(banktypes.StoreKey)), banktypes.BalancesPrefix)
			defer bit.Close()
			for ; bit.Valid(); bit.Next() {
				var c sdk.Coin
				k := bit.Key()[len(banktypes.BalancesPrefix):]
				if err := c.Unmarshal(bit.Value()); err != nil || !bytes.HasSuffix(k, []byte(c.Denom)) {
					s.perr("bank balance record unreadable: %x", bit.Key())
					continue
				}
				noteBal(sdk.AccAddress(append([]byte{}, k[:len(k)-len(c.Denom)]...)), c)
			}
		}()
		h.app.BankKeeper.IterateAllBalances(ctx, noteBal)
	}()
	sup := h.app.BankKeeper.GetSupply(ctx).GetTotal().AmountOf("stake")
	if sup.IsInt64() {
		s.Supply = sup.Int64()
	} else {
		s.Supply = math.MaxInt64
	}
	// parameters straight from the params subspace (not through the service keeper's getters)
	h.app.GetSubspace(types.ModuleName).GetParamSet(ctx, &s.Params)
	return s
}

func splitZero(b []byte, n int) [][]byte {
	return bytes.SplitN(b, []byte{0}, n)
}

func (s *Snap) parseKV(k, v []byte) {
	if len(k) < 1 {
		s.perr("empty key")
		return
	}
	rest := k[1:]
	switch k[0] {
	case 0x01:
		var d types.ServiceDefinition
		if err := d.Unmarshal(v); err != nil {
			s.perr("0x01 %x: %v", k, err)
			return
		}
		if d.Name != string(rest) {
			s.perr("0x01 key %q != value name %q", rest, d.Name)
		}
		s.Defs[string(rest)] = &d
	case 0x02, 0x06:
		parts := splitZero(rest, 2)
		if len(parts) != 2 {
			s.perr("0x%02x key without separator: %x", k[0], k)
			return
		}
		prov, err := decodeBech32(string(parts[1]))
		if err != nil {
			s.perr("0x%02x key provider not bech32: %q", k[0], parts[1])
			return
		}
		bk := bkey(string(parts[0]), prov)
		if k[0] == 0x02 {
			var b types.ServiceBinding
			if err := b.Unmarshal(v); err != nil {
				s.perr("0x02 %x: %v", k, err)
				return
			}
			if b.ServiceName != string(parts[0]) || !bytes.Equal(b.Provider, prov) {
				s.perr("0x02 key (%s,%x) != value (%s,%x)", parts[0], prov, b.ServiceName, []byte(b.Provider))
			}
			if _, dup := s.Bindings[bk]; dup {
				s.perr("0x02 duplicate binding %s", bk)
			}
			s.Bindings[bk] = &b
			s.BindKeys[bk] = string(rest)
		} else {
			var p types.Pricing
			if err := p.Unmarshal(v); err != nil {
				s.perr("0x06 %x: %v", k, err)
				return
			}
			s.Pricing[bk] = &p
		}
	case 0x03:
		if len(rest) < 20+2 {
			s.perr("0x03 key too short %x", k)
			return
		}
		owner := rest[:20]
		parts := splitZero(rest[20:], 2)
		if len(parts) != 2 || len(parts[1]) == 0 {
			s.perr("0x03 key malformed %x", k)
			return
		}
		s.OwnerBind[hx(owner)+"|"+string(parts[0])+"|"+hx(parts[1])] = true
		if len(v) != 0 {
			s.perr("0x03 non-empty value")
		}
	case 0x04:
		var bv gogotypes.BytesValue
		if err := bv.Unmarshal(v); err != nil {
			s.perr("0x04 %x: %v", k, err)
			return
		}
		s.OwnerOf[hx(rest)] = bv.Value
	case 0x05:
		if len(rest) < 21 {
			s.perr("0x05 key too short %x", k)
			return
		}
		s.OwnerProv[hx(rest[:20])+"|"+hx(rest[20:])] = true
	case 0x07:
		if len(v) == 0 {
			s.perr("0x07 empty withdraw address for %x", rest)
		}
		s.Withdraw[hx(rest)] = v
	case 0x08:
		var c types.RequestContext
		if err := c.Unmarshal(v); err != nil {
			s.perr("0x08 %x: %v", k, err)
			return
		}
		if len(rest) != 40 {
			s.perr("0x08 context id length %d", len(rest))
		}
		s.Ctx[hx(rest)] = &c
	case 0x09, 0x10:
		if len(rest) != 48 {
			s.perr("0x%02x queue key length %d", k[0], len(rest))
			return
		}
		var bv gogotypes.BytesValue
		if err := bv.Unmarshal(v); err != nil || !bytes.Equal(bv.Value, rest[8:]) {
			s.perr("0x%02x queue value != key id: %x", k[0], k)
		}
		e := QEntry{H: int64(binary.BigEndian.Uint64(rest[:8])), ID: hx(rest[8:])}
		if k[0] == 0x09 {
			s.ExpQ = append(s.ExpQ, e)
		} else {
			s.NewQ = append(s.NewQ, e)
		}
	case 0x11, 0x12:
		var iv gogotypes.Int64Value
		if err := iv.Unmarshal(v); err != nil {
			s.perr("0x%02x %x: %v", k[0], k, err)
			return
		}
		if len(rest) != 40 {
			s.perr("0x%02x pointer key length %d", k[0], len(rest))
		}
		if k[0] == 0x11 {
			s.ExpH[hx(rest)] = iv.Value
		} else {
			s.NewH[hx(rest)] = iv.Value
		}
	case 0x13:
		var r types.CompactRequest
		if err := r.Unmarshal(v); err != nil {
			s.perr("0x13 %x: %v", k, err)
			return
		}
		if len(rest) != 58 {
			s.perr("0x13 request id length %d", len(rest))
		}
		s.Req[hx(rest)] = &r
	case 0x14:
		// name 00 bech32 00 expiry(8) reqid(58)
		parts := splitZero(rest, 3)
		if len(parts) != 3 || len(parts[2]) != 8+58 {
			s.perr("0x14 key malformed %x", k)
			return
		}
		var bv gogotypes.BytesValue
		if err := bv.Unmarshal(v); err != nil || !bytes.Equal(bv.Value, parts[2][8:]) {
			s.perr("0x14 value != key request id: %x", k)
		}
		s.Active14 = append(s.Active14, ActiveKey{
			Svc: string(parts[0]), Prov: string(parts[1]),
			Expiry: int64(binary.BigEndian.Uint64(parts[2][:8])), ReqID: hx(parts[2][8:]),
		})
	case 0x15:
		var bv gogotypes.BytesValue
		if err := bv.Unmarshal(v); err != nil || !bytes.Equal(bv.Value, rest) {
			s.perr("0x15 value != key: %x", k)
		}
		if len(rest) != 58 {
			s.perr("0x15 request id length %d", len(rest))
		}
		s.Active15[hx(rest)] = true
	case 0x16:
		var r types.Response
		if err := r.Unmarshal(v); err != nil {
			s.perr("0x16 %x: %v", k, err)
			return
		}
		if len(rest) != 58 {
			s.perr("0x16 request id length %d", len(rest))
		}
		s.Resp[hx(rest)] = &r
	case 0x17:
		// consumerBech 00 svc 00 provBech 00
		parts := bytes.Split(rest, []byte{0})
		if len(parts) != 4 || len(parts[3]) != 0 {
			s.perr("0x17 key malformed %x", k)
			return
		}
		var uv gogotypes.UInt64Value
		if err := uv.Unmarshal(v); err != nil {
			s.perr("0x17 %x: %v", k, err)
			return
		}
		s.Vol[string(parts[0])+"|"+string(parts[1])+"|"+string(parts[2])] = uv.Value
	case 0x18:
		var c sdk.Coin
		if err := c.Unmarshal(v); err != nil {
			s.perr("0x18 %x: %v", k, err)
			return
		}
		if !bytes.HasSuffix(rest, []byte(c.Denom)) || len(rest) <= len(c.Denom) {
			s.perr("0x18 key suffix != coin denom: %x / %s", k, c.Denom)
		}
		s.Earned = append(s.Earned, EarnedRec{KeyRest: append([]byte{}, rest...), Coin: c})
	case 0x19:
		var c sdk.Coin
		if err := c.Unmarshal(v); err != nil {
			s.perr("0x19 %x: %v", k, err)
			return
		}
		s.OwnerEarned[hx(rest)] = c
	default:
		s.perr("unknown prefix 0x%02x key %x", k[0], k)
	}
}

// EarnedOf returns the earnings record of exactly this provider (key == provider || denom).
func (s *Snap) EarnedOf(provider []byte) int64 {
	for _, e := range s.Earned {
		if len(e.KeyRest) == len(provider)+len(e.Coin.Denom) && bytes.Equal(e.KeyRest[:len(provider)], provider) {
			return e.Coin.Amount.Int64()
		}
	}
	return 0
}

func (s *Snap) EarnedTotal() int64 {
	var t int64
	for _, e := range s.Earned {
		t += e.Coin.Amount.Int64()
	}
	return t
}

func coinsStake(c sdk.Coins) int64 {
	a := c.AmountOf("stake")
	if !a.IsInt64() {
		return -1
	}
	return a.Int64()
}

// Digest: sha256 over raw store, balances, supply (C20 replica comparison, determinism self-test).
func (s *Snap) Digest() string {
	if s.digest != "" {
		return s.digest
	}
	h := sha256.New()
	for _, kv := range s.Raw {
		var l [8]byte
		binary.BigEndian.PutUint32(l[:4], uint32(len(kv.K)))
		binary.BigEndian.PutUint32(l[4:], uint32(len(kv.V)))
		h.Write(l[:])
		h.Write(kv.K)
		h.Write(kv.V)
	}
	addrs := make([]string, 0, len(s.Bal))
	for a := range s.Bal {
		addrs = append(addrs, a)
	}
	sort.Strings(addrs)
	for _, a := range addrs {
		fmt.Fprintf(h, "%s=%d;%s", a, s.Bal[a], s.OtherDenoms[a])
	}
	fmt.Fprintf(h, "supply=%d;h=%d;t=%d", s.Supply, s.Height, s.Time.UnixNano())
	s.digest = hex.EncodeToString(h.Sum(nil))
	return s.digest
}

// sortedCtxIDs etc.: deterministic iteration helpers.
func sortedStrKeys(n int, each func(func(string))) []string {
	out := make([]string, 0, n)
	each(func(k string) { out = append(out, k) })
	sort.Strings(out)
	return out
}

func (s *Snap) CtxIDs() []string {
	return sortedStrKeys(len(s.Ctx), func(f func(string)) {
		for k := range s.Ctx {
			f(k)
		}
	})
}

func (s *Snap) ReqIDs() []string {
	return sortedStrKeys(len(s.Req), func(f func(string)) {
		for k := range s.Req {
			f(k)
		}
	})
}

func (s *Snap) BindingKeys() []string {
	return sortedStrKeys(len(s.Bindings), func(f func(string)) {
		for k := range s.Bindings {
			f(k)
		}
	})
}

func (s *Snap) BalOf(addr []byte) int64 { return s.Bal[hx(addr)] }
