#!/usr/bin/env python3
"""Hand-written single-site mutants, one per oracle rule that no sub-agent seed happened to exercise.
They need not pass the baseline tests: their purpose is to show that every oracle rule can fire (no dead rule).
usage: hand_mutants.py [id ...]   — applies each textual replacement to /repo, runs the property's quick check, reverts;
writes /verif/mutants/<id>.json and prints a summary line."""
import subprocess, sys, json, os, re
M = [
 ("H01","C07","keeper/invocation.go","\tif !superMode {\n\t\tbinding, _ := k.GetServiceBinding(ctx, serviceName, provider)","\tif true {\n\t\tbinding, _ := k.GetServiceBinding(ctx, serviceName, provider)","super-mode requests carry a fee"),
 ("H02","C08","keeper/invocation.go","\tif !k.IsRequestActive(ctx, requestID) {\n\t\treturn request, response, sdkerrors.Wrap(types.ErrInvalidResponse, \"request is not active\")\n\t}\n","","a second response to the same request is accepted"),
 ("H03","C08","keeper/invocation.go","\tif !k.IsRequestActive(ctx, requestID) {","\tif ctx.BlockHeight() >= request.ExpirationHeight || !k.IsRequestActive(ctx, requestID) {","a response in the expiry block itself is refused"),
 ("H04","C09","keeper/invocation.go","\tif repeatedTotal != 0 {\n\t\trequestContext.RepeatedTotal = repeatedTotal\n\t}","\tif repeatedTotal != 0 {\n\t\trequestContext.RepeatedTotal = repeatedTotal\n\t\trequestContext.Repeated = true\n\t}","an update of the total turns a one-shot context into a repeated one"),
 ("H05","C10","keeper/invocation.go","\tif requestContext.State == types.RUNNING {\n\t\tk.AddNewRequestBatch(ctx, requestContextID, ctx.BlockHeight())\n\t}\n\n\treturn requestContextID, nil","\tif requestContext.State == types.RUNNING {\n\t\tk.AddNewRequestBatch(ctx, requestContextID, ctx.BlockHeight()+1)\n\t}\n\n\treturn requestContextID, nil","the first batch is scheduled one block late"),
 ("H06","C11","keeper/invocation.go","\tif !k.HasRequestBatchExpiration(ctx, requestContextID) && !k.HasNewRequestBatch(ctx, requestContextID) {\n\t\tk.AddNewRequestBatch(ctx, requestContextID, ctx.BlockHeight())\n\t}","","start forgets to schedule the next batch"),
 ("H07","C12","keeper/invocation.go","\toutputs := k.GetResponseOutputs(ctx, requestContextID, requestContext.BatchCounter)","\toutputs := k.GetResponseOutputs(ctx, requestContextID, requestContext.BatchCounter-1)","the callback receives the previous batch's outputs"),
 ("H08","C12","keeper/state_change.go","\t\tstateCallback, _ := k.GetStateCallback(requestContext.ModuleName)\n\t\tstateCallback(ctx, requestContextID, cause)","\t\t_, _ = k.GetStateCallback(requestContext.ModuleName)","the state callback is not invoked"),
 ("H09","C12","keeper/invocation.go","\tif requestContext.BatchResponseCount == requestContext.BatchRequestCount {\n\t\trequestContext = k.CompleteBatch(ctx, requestContext, requestContextID)\n\t}","\tif requestContext.BatchResponseCount == requestContext.BatchRequestCount {\n\t\trequestContext = k.CompleteBatch(ctx, requestContext, requestContextID)\n\t} else if len(requestContext.ModuleName) != 0 {\n\t\tk.Callback(ctx, requestContextID)\n\t}","the response callback fires on every response"),
 ("H10","C13","keeper/fees.go","\t\t\tprovider := sdk.AccAddress(iterator.Key()[sdk.AddrLen+1:])\n\t\t\tk.DeleteEarnedFees(ctx, provider)","\t\t\tprovider := sdk.AccAddress(iterator.Key()[sdk.AddrLen+1:])\n\t\t\t_ = provider","an owner-wide withdrawal leaves the providers' records in place"),
 ("H11","C15","keeper/definition.go","\tif _, found := k.GetServiceDefinition(ctx, name); found {\n\t\treturn sdkerrors.Wrap(types.ErrServiceDefinitionExists, name)\n\t}\n","\t_ = sdkerrors.Wrap\n","a second definition with the same name overwrites the first"),
 ("H12","C15","keeper/binding.go","\tif currentOwner.Empty() {\n\t\tk.SetOwner(ctx, provider, owner)\n\t\tk.SetOwnerProvider(ctx, owner, provider)\n\t}","\tif currentOwner.Empty() {\n\t\tk.SetOwner(ctx, provider, owner)\n\t}","the owner->providers index is not written"),
 ("H13","C16","keeper/state_change.go","\t\tk.DeleteCompactRequest(ctx, requestID)\n\t\tk.DeleteResponse(ctx, requestID)","\t\tk.DeleteCompactRequest(ctx, requestID)","responses are not cleaned with their batch"),
 ("H14","C18","types/invocation.go","\tbinary.BigEndian.PutUint64(bz, requestContextBatchCounter)\n\tbinary.BigEndian.PutUint64(bz[8:], uint64(requestHeight))","\tbinary.BigEndian.PutUint64(bz, uint64(requestHeight))\n\tbinary.BigEndian.PutUint64(bz[8:], requestContextBatchCounter)","request ids encode height and batch in swapped positions"),
 ("H15","C19","genesis.go","\t\t\twithdrawAddresses[ownerAddress.String()] = withdrawAddress\n","\t\t\t_ = withdrawAddress\n","withdrawal addresses are not exported"),
 ("H16","C03","keeper/binding.go","\tbinding.Deposit = sdk.Coins{}\n\tk.SetServiceBinding(ctx, binding)\n\n\treturn nil\n}\n\n// RefundDeposits","\tk.SetServiceBinding(ctx, binding)\n\n\treturn nil\n}\n\n// RefundDeposits","a refund leaves the deposit recorded"),
 ("H17","C03","keeper/invocation.go","\tif err := k.bankKeeper.BurnCoins(ctx, types.DepositAccName, slashedCoins); err != nil {\n\t\treturn err\n\t}","\tif err := k.bankKeeper.SendCoinsFromModuleToModule(ctx, types.DepositAccName, k.feeCollectorName, slashedCoins); err != nil {\n\t\treturn err\n\t}","slashed coins are sent to the fee collector instead of being destroyed"),
 ("H18","C02","keeper/fees.go","\tearnedFees, _ := k.GetEarnedFees(ctx, provider)\n\tk.SetEarnedFees(ctx, provider, earnedFees.Add(earnedFee...))","\tearnedFees, _ := k.GetEarnedFees(ctx, provider)\n\tk.SetEarnedFees(ctx, provider, earnedFees.Add(fee...))","the provider is credited the whole fee although the tax was taken"),
 ("H19","C11","abci.go","\t\tk.DeleteRequestBatchExpiration(ctx, requestContextID, ctx.BlockHeight())\n","","expired batches stay in the expiry queue"),
 ("H20","C09","abci.go","\t\tif requestContext.State == types.RUNNING {\n\t\t\tproviders, totalPrices, rawDenom, err := k.FilterServiceProviders(","\t\tif requestContext.State != types.COMPLETED {\n\t\t\tproviders, totalPrices, rawDenom, err := k.FilterServiceProviders(","a batch that comes due while the context is paused is issued anyway"),
 ("H21","C06","abci.go","\t\t\t\t\tif err := k.DeductServiceFees(ctx, requestContext.Consumer, totalPrices); err != nil {","\t\t\t\t\tif err := k.DeductServiceFees(ctx, requestContext.Consumer, totalPrices.Add(totalPrices...)); err != nil {","the consumer must hold (and pays) twice the total; contexts are paused although they could pay"),
 ("H23","C06","keeper/invocation.go","\t\trequestContext.ServiceFeeCap = serviceFeeCap\n","\t\t_ = serviceFeeCap\n","a context update validates the new fee cap but does not store it"),
 ("H24","C07","keeper/binding.go","\t\tbinding.Pricing = pricing\n\t\tk.SetPricing(ctx, serviceName, provider, parsedPricing)\n","\t\t_ = parsedPricing\n","a pricing update is validated and accepted but neither the text nor the terms are stored"),
 ("H22","C20","keeper/binding.go","\tbinding.Available = false\n\tbinding.DisabledTime = ctx.BlockHeader().Time\n\n\tk.SetServiceBinding(ctx, binding)\n\n\treturn nil\n}\n\n// EnableServiceBinding","\tbinding.Available = false\n\tbinding.DisabledTime = ctx.BlockHeader().Time\n\tif len(binding.Options) > 4096 {\n\t\tpanic(\"options too long\")\n\t}\n\n\tk.SetServiceBinding(ctx, binding)\n\n\treturn nil\n}\n\n// EnableServiceBinding","(control: must NOT be detected - unreachable panic)"),
]
sel = set(sys.argv[1:])
env = dict(os.environ)
for (mid, prop, f, old, new, what) in M:
    if sel and mid not in sel: continue
    path = "/repo/" + f
    src = open(path).read()
    if old not in src:
        print(mid, "PATTERN NOT FOUND"); continue
    open(path, "w").write(src.replace(old, new, 1))
    try:
        b = subprocess.run("cd /repo && GOFLAGS=-mod=mod GOPROXY=off GOSUMDB=off go build ./... 2>&1 | tail -3", shell=True, capture_output=True, text=True)
        if b.stdout.strip():
            print(mid, "DOES NOT BUILD:", b.stdout.strip()[:200]); continue
        diff = subprocess.run("git -C /repo diff", shell=True, capture_output=True, text=True).stdout
        p = subprocess.run(f"cd /verif && VERIF_RUNS=1200 ./check.sh {prop} quick", shell=True, capture_output=True, text=True, errors="replace")
        out = p.stdout + p.stderr
    finally:
        subprocess.run("git -C /repo checkout -- .", shell=True)
    viol = [l for l in out.splitlines() if l.startswith("violation:")]
    rules = sorted({v.split()[1].rstrip(':').split(';')[0] for v in viol})
    runs = re.search(r"runs=(\d+).*wall=([\d.]+)s", out)
    rec = {"id": mid, "property": prop, "file": f, "what": what, "diff": diff, "detected": bool(viol), "rules": rules,
           "first_violation": viol[0][:500] if viol else None, "runs_until_stop": int(runs.group(1)) if runs else None, "exit": p.returncode}
    json.dump(rec, open(f"/verif/mutants/{mid}.json", "w"), indent=1)
    print(mid, prop, "DETECTED" if viol else "not detected", rules, f"rc={p.returncode}", flush=True)
