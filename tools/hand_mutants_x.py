#!/usr/bin/env python3
"""Hand-written mutants of the multi-token / exchange-rate path (DESIGN §10.8). Like hand_mutants.py, but each is applied
to a scratch worktree of /repo's HEAD (never to /repo) and checked through VERIF_REPO.
usage: hand_mutants_x.py [id ...]   — writes /verif/mutants/<id>.json and prints a summary line."""
import subprocess, sys, json, os, re
M = [
 ("X01","C07","keeper/oracle_price.go","\t\trealPrice = price.Mul(rate)","\t\trealPrice = price.Quo(rate)","the exchange rate divides instead of multiplies"),
 ("X02","C06","keeper/oracle_price.go","inputBody := fmt.Sprintf(`{\"pair\":\"%s-%s\"}`, rawDenom, baseDenom)","inputBody := fmt.Sprintf(`{\"pair\":\"%s-%s\"}`, baseDenom, rawDenom)","the feed is asked for the inverse pair"),
 ("X03","C07","keeper/oracle_price.go","\t// set to 1 if price < 1\n\tif realPrice.LT(sdk.OneDec()) {\n\t\trealPrice = sdk.OneDec()\n\t}\n\n\treturn sdk.NewCoins(sdk.NewCoin(baseDenom, realPrice.TruncateInt())), rawDenom, nil","\t// set to 1 if price < 1\n\tif price.LT(sdk.OneDec()) {\n\t\trealPrice = sdk.OneDec()\n\t}\n\n\treturn sdk.NewCoins(sdk.NewCoin(baseDenom, realPrice.TruncateInt())), rawDenom, nil","the one-unit floor looks at the price before exchange: a large foreign price at a tiny rate is charged 0, a tiny one at a large rate 1"),
 ("X04","C11","abci.go","\t\t\t\t// no provider can be priced: the batch is skipped below (no providers), so that the\n\t\t\t\t// context stays scheduled instead of being left behind in the processed queue\n","\t\t\t\tk.SkipCurrentRequestBatch(ctx, requestContextID, requestContext)\n\t\t\t\treturn\n","without a rate the batch is skipped but the context is not taken off the processed queue"),
 ("X05","C01","keeper/invocation.go","\t\tprice, _, err := k.GetExchangedPrice(ctx, consumer, binding)\n\t\tif err != nil {\n\t\t\tprice = k.GetPrice(ctx, consumer, binding)\n\t\t}","\t\tprice := k.GetPrice(ctx, consumer, binding)","(D13 again) the request records the base-denom part of the raw price"),
 ("X06","C15","types/token.go","\t// dest amount = src amount * 10^(dest scale)\n\tamount := coin.Amount.Mul(precisionDec)","\t// dest amount = src amount * 10^(dest scale)\n\tamount := coin.Amount.Quo(precisionDec)","main unit -> min unit conversion divides by the precision"),
 ("X07","C07","keeper/oracle_price.go","\trawPrice := pricing.Price.AmountOf(rawDenom)\n\tprice := sdk.NewDecFromInt(rawPrice).Mul(discountByTime).Mul(discountByVolume)","\trawPrice := pricing.Price.AmountOf(rawDenom)\n\tprice := sdk.NewDecFromInt(rawPrice).Mul(discountByTime).Mul(discountByVolume)\n\tif baseDenom != rawDenom {\n\t\tprice = sdk.NewDecFromInt(rawPrice)\n\t}","promotions are not applied to prices published in a foreign token"),
]
sel = set(sys.argv[1:])
for (mid, prop, f, old, new, what) in M:
    if sel and mid not in sel: continue
    wt = f"/tmp/hmx-{mid}"
    subprocess.run(f"git -C /repo worktree add -q --detach {wt} HEAD", shell=True, check=True)
    try:
        path = f"{wt}/{f}"
        src = open(path).read()
        if old not in src:
            print(mid, "PATTERN NOT FOUND"); continue
        open(path, "w").write(src.replace(old, new, 1))
        b = subprocess.run(f"cd {wt} && GOFLAGS=-mod=mod GOPROXY=off GOSUMDB=off go build ./... 2>&1 | tail -3", shell=True, capture_output=True, text=True)
        if b.stdout.strip():
            print(mid, "DOES NOT BUILD:", b.stdout.strip()[:300]); continue
        diff = subprocess.run(f"git -C {wt} diff", shell=True, capture_output=True, text=True).stdout
        p = subprocess.run(f"cd /verif && VERIF_REPO={wt} VERIF_RUNS=1200 ./check.sh {prop} quick", shell=True, capture_output=True, text=True, errors="replace")
        out = p.stdout + p.stderr
    finally:
        subprocess.run(f"git -C /repo worktree remove --force {wt}; rm -rf {wt}", shell=True)
    viol = [l for l in out.splitlines() if l.startswith("violation:")]
    rules = sorted({v.split()[1].rstrip(':').split(';')[0] for v in viol})
    runs = re.search(r"runs=(\d+).*wall=([\d.]+)s", out)
    rec = {"id": mid, "property": prop, "file": f, "what": what, "diff": diff, "detected": bool(viol), "rules": rules,
           "first_violation": viol[0][:500] if viol else None, "runs_until_stop": int(runs.group(1)) if runs else None, "exit": p.returncode}
    json.dump(rec, open(f"/verif/mutants/{mid}.json", "w"), indent=1)
    print(mid, prop, "DETECTED" if viol else "not detected", rules, f"rc={p.returncode}", flush=True)
