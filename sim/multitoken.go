package main

// Multi-token runs (DESIGN §10.8): the service keeper's TokenKeeper seam (types.TokenKeeper, an interface the
// keeper is constructed with) is filled with a harness token keeper that knows more than one token, and the
// "oracle" module service that GetExchangedPrice asks for exchange rates is provided by the harness's foreign
// module from a rate table that trace ops change. The repository's sample app hard-wires MockTokenKeeper
// (one token), so the freshly constructed app is re-wired here: the keeper's tokenKeeper field is replaced and
// the module manager's service AppModule is rebuilt around the re-wired keeper. Only wiring changes; every line
// of the module itself is the repository's.

import (
	"fmt"
	"math/big"
	"reflect"
	"unsafe"

	sdk "github.com/cosmos/cosmos-sdk/types"
	"github.com/cosmos/cosmos-sdk/types/module"

	service "github.com/irismod/service"
	simapp "github.com/irismod/service/app"
	"github.com/irismod/service/types"
)

// hToken is one entry of the harness's token table (fixed; a run either plugs the table in or not).
type hToken struct {
	Symbol, MinUnit string
	Scale           uint32
}

var hTokenTable = []hToken{
	{"stake", "stake", 0},
	{"gold", "ugold", 3},
	{"silver", "silver", 0},
}

// multiTokenRun is set by the executor at the start of every run (runs are sequential within a process).
var multiTokenRun bool

func lookupToken(denom string) (hToken, bool) {
	for i, t := range hTokenTable {
		if i > 0 && !multiTokenRun {
			break
		}
		if t.Symbol == denom || t.MinUnit == denom {
			return t, true
		}
	}
	return hToken{}, false
}

type verifTokenKeeper struct{}

func (verifTokenKeeper) GetToken(ctx sdk.Context, denom string) (types.TokenI, error) {
	for _, t := range hTokenTable {
		if t.Symbol == denom || t.MinUnit == denom {
			// the repository's own TokenI implementation does the unit conversion
			return types.MockToken{Symbol: t.Symbol, MinUnit: t.MinUnit, Scale: t.Scale}, nil
		}
	}
	return nil, fmt.Errorf("token %s does not exist", denom)
}

// rewireTokenKeeper replaces the token keeper of the app's service keeper. Returns false (and changes nothing)
// if the app or keeper is not shaped as expected; multi-token runs are then executed as single-token runs.
func rewireTokenKeeper(app *simapp.SimApp) (ok bool) {
	defer func() {
		if r := recover(); r != nil {
			ok = false
		}
	}()
	kv := reflect.ValueOf(&app.ServiceKeeper).Elem()
	f := kv.FieldByName("tokenKeeper")
	if !f.IsValid() || f.Kind() != reflect.Interface {
		return false
	}
	av := reflect.ValueOf(app).Elem()
	mmf := av.FieldByName("mm")
	if !mmf.IsValid() || mmf.Kind() != reflect.Ptr {
		return false
	}
	mm, isMgr := reflect.NewAt(mmf.Type(), unsafe.Pointer(mmf.UnsafeAddr())).Elem().Interface().(*module.Manager)
	if !isMgr || mm == nil || mm.Modules[types.ModuleName] == nil {
		return false
	}
	var tk types.TokenKeeper = verifTokenKeeper{}
	reflect.NewAt(f.Type(), unsafe.Pointer(f.UnsafeAddr())).Elem().Set(reflect.ValueOf(&tk).Elem())
	// the module manager holds a copy of the keeper inside its AppModule: rebuild it around the re-wired keeper
	mm.Modules[types.ModuleName] = service.NewAppModule(app.AppCodec(), app.ServiceKeeper, app.AccountKeeper, app.BankKeeper)
	return true
}

// rateReply is what the harness's "oracle" module service answers for a pair under the rate table in force.
// Table values: a decimal string = the rate; "" / missing = the feed has no value (result code 500);
// "!body" = malformed reply body; "!nan" = a rate that is not a number.
func rateReply(rates map[string]string, input string) (string, string) {
	pair := ""
	// input is `{"header":{},"body":{"pair":"a-b"}` (the module builds it without the closing brace)
	if i := indexOf(input, `"pair":"`); i >= 0 {
		rest := input[i+len(`"pair":"`):]
		if j := indexOf(rest, `"`); j >= 0 {
			pair = rest[:j]
		}
	}
	v, ok := rates[pair]
	switch {
	case !ok || v == "":
		return `{"code":500,"message":"no feed value"}`, ""
	case v == "!body":
		return `{"code":200,"message":""}`, `{"header":{},"body":{"ratio":"1.0"}}`
	case v == "!nan":
		return `{"code":200,"message":""}`, `{"header":{},"body":{"rate":"abc"}}`
	}
	return `{"code":200,"message":""}`, fmt.Sprintf(`{"header":{},"body":{"rate":"%s"}}`, v)
}

func indexOf(s, sub string) int {
	for i := 0; i+len(sub) <= len(s); i++ {
		if s[i:i+len(sub)] == sub {
			return i
		}
	}
	return -1
}

// rateFor returns the usable exchange rate of a foreign pricing denomination under a rate table, or nil if the
// feed gives none (missing, refused, malformed or not a number).
func rateFor(rates map[string]string, rawDenom string) *big.Rat {
	v, ok := rates[rawDenom+"-stake"]
	if !ok || v == "" || v[0] == '!' {
		return nil
	}
	r, good := new(big.Rat).SetString(v)
	if !good {
		return nil
	}
	return r
}

func copyRates(m map[string]string) map[string]string {
	out := map[string]string{}
	for k, v := range m {
		out[k] = v
	}
	return out
}

// moduleReplyTo: the output the harness's module service gave, in this step, to a consumer's call with that input
// (ok=false if it was not asked). Its own record of what it answered — not the response the service module stored.
func moduleReplyTo(r *StepRec, input string) (string, bool) {
	for i := len(r.ModReplies) - 1; i >= 0; i-- {
		if r.ModReplies[i].Input == input {
			return r.ModReplies[i].Output, true
		}
	}
	return "", false
}

// servedOutputKind classifies the answer a module-service call got: by the module's own record of its reply where
// there is one, else by the stored response.
func servedOutputKind(r *StepRec, rid string) string {
	if r.Kind == "msg" && r.Msg != nil && r.Msg.T == "call" {
		if out, ok := moduleReplyTo(r, r.Msg.Input); ok {
			return outputKind(out)
		}
	}
	if resp, ok := r.Post.Resp[rid]; ok {
		return outputKind(resp.Output)
	}
	return "none"
}
