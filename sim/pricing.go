package main

// The harness's own reading of a binding's *published pricing text* (never the module's parsed 0x06 record),
// with exact rationals. Written from the property statements C07/C14, not from the keeper.

import (
	"encoding/json"
	"fmt"
	"math/big"
	"regexp"
	"time"
)

type hTimePromo struct {
	Start, End time.Time
	Discount   *big.Rat
}
type hVolPromo struct {
	Volume   uint64
	Discount *big.Rat
}
type HPricing struct {
	Base   *big.Int // base price in min units of Denom, truncated
	Denom  string   // the min unit of the pricing token ("stake" = the base denomination; anything else is a foreign token)
	ByTime []hTimePromo
	ByVol  []hVolPromo
}

var rePrice = regexp.MustCompile(`^(\d+(?:\.\d+)?)([a-z][a-z0-9]{2,7})$`)

func ParseHPricing(text string) (*HPricing, error) {
	var raw struct {
		Price string `json:"price"`
		ByT   []struct {
			Start    time.Time `json:"start_time"`
			End      time.Time `json:"end_time"`
			Discount string    `json:"discount"`
		} `json:"promotions_by_time"`
		ByV []struct {
			Volume   uint64 `json:"volume"`
			Discount string `json:"discount"`
		} `json:"promotions_by_volume"`
	}
	if err := json.Unmarshal([]byte(text), &raw); err != nil {
		return nil, err
	}
	m := rePrice.FindStringSubmatch(raw.Price)
	if m == nil {
		return nil, fmt.Errorf("price %q", raw.Price)
	}
	amt, ok := new(big.Rat).SetString(m[1])
	if !ok {
		return nil, fmt.Errorf("price amount %q", m[1])
	}
	p := &HPricing{Denom: m[2]}
	if tok, ok := lookupToken(m[2]); ok && tok.MinUnit != m[2] {
		// written in the token's main unit: min units = amount * 10^scale
		amt.Mul(amt, new(big.Rat).SetInt(new(big.Int).Exp(big.NewInt(10), big.NewInt(int64(tok.Scale)), nil)))
		p.Denom = tok.MinUnit
	}
	p.Base = new(big.Int).Quo(amt.Num(), amt.Denom()) // fractions of the min unit truncate
	for _, t := range raw.ByT {
		d, ok := new(big.Rat).SetString(t.Discount)
		if !ok {
			return nil, fmt.Errorf("discount %q", t.Discount)
		}
		p.ByTime = append(p.ByTime, hTimePromo{t.Start, t.End, d})
	}
	for _, v := range raw.ByV {
		d, ok := new(big.Rat).SetString(v.Discount)
		if !ok {
			return nil, fmt.Errorf("discount %q", v.Discount)
		}
		p.ByVol = append(p.ByVol, hVolPromo{v.Volume, d})
	}
	return p, nil
}

var ratOne = big.NewRat(1, 1)

// timeDiscounts: the discount(s) acceptable at block time t. Start inclusive; the exact end instant is left
// open by the statement ("at the end of"), so both the promotion's discount and what follows are accepted there.
func (p *HPricing) timeDiscounts(t time.Time) []*big.Rat {
	var out []*big.Rat
	inAny := false
	for _, w := range p.ByTime {
		if !t.Before(w.Start) && t.Before(w.End) {
			out = append(out, w.Discount)
			inAny = true
		} else if t.Equal(w.End) {
			out = append(out, w.Discount)
		}
	}
	if !inAny {
		out = append(out, ratOne)
	}
	return out
}

// volDiscounts: discount of the highest threshold <= volume; equal thresholds are legal, then either passes.
func (p *HPricing) volDiscounts(volume uint64) []*big.Rat {
	var best uint64
	found := false
	for _, v := range p.ByVol {
		if v.Volume <= volume && (!found || v.Volume > best) {
			best = v.Volume
			found = true
		}
	}
	if !found {
		return []*big.Rat{ratOne}
	}
	var out []*big.Rat
	for _, v := range p.ByVol {
		if v.Volume == best {
			out = append(out, v.Discount)
		}
	}
	return out
}

var eps18 = new(big.Rat).SetFrac(big.NewInt(1), new(big.Int).Exp(big.NewInt(10), big.NewInt(18), nil))

func floorRat(r *big.Rat) *big.Int {
	q := new(big.Int)
	m := new(big.Int)
	q.DivMod(r.Num(), r.Denom(), m)
	return q
}

// Foreign: the pricing is published in a token other than the base denomination.
func (p *HPricing) Foreign() bool { return p.Denom != "stake" }

// AcceptableFees returns every fee the statement allows for a non-super request at (t, volume). A pricing published in
// a foreign token is converted into the base denomination at the exchange rate the feed publishes for it (rates); nil
// is returned when the feed has no usable rate (the request then cannot be priced at all).
func (p *HPricing) AcceptableFees(t time.Time, volume uint64, rates map[string]string) map[string]bool {
	out := map[string]bool{}
	base := new(big.Rat).SetInt(p.Base)
	tol := eps18
	if p.Foreign() {
		rate := rateFor(rates, p.Denom)
		if rate == nil {
			return nil
		}
		base.Mul(base, rate)
		// the module multiplies 18-decimal fixed-point numbers step by step: each rounding error is scaled by the rate
		tol = new(big.Rat).Mul(eps18, new(big.Rat).Add(new(big.Rat).Mul(rate, big.NewRat(2, 1)), big.NewRat(2, 1)))
	}
	for _, dt := range p.timeDiscounts(t) {
		for _, dv := range p.volDiscounts(volume) {
			prod := new(big.Rat).Mul(base, dt)
			prod.Mul(prod, dv)
			for _, adj := range []*big.Rat{new(big.Rat), tol, new(big.Rat).Neg(tol)} {
				v := new(big.Rat).Add(prod, adj)
				f := floorRat(v)
				if f.Sign() < 1 {
					f = big.NewInt(1)
				}
				out[f.String()] = true
			}
		}
	}
	return out
}

// MinDepositFor: max(minDeposit, base * multiple). For a pricing published in a foreign token the statement's "base
// price times the multiple" has no reading in the deposit's denomination; only the global minimum is demanded then.
func (p *HPricing) MinDepositFor(minDeposit, multiple int64) *big.Int {
	m := new(big.Int).Mul(p.Base, big.NewInt(multiple))
	md := big.NewInt(minDeposit)
	if p.Foreign() {
		return md
	}
	if m.Cmp(md) < 0 {
		return md
	}
	return m
}
