package main

import (
	"bytes"
	"encoding/json"
	"flag"
	"fmt"
	"os"
	"os/exec"
	"strings"
	"sync"
	"time"
)

func usage() {
	fmt.Fprintln(os.Stderr, `usage: svcsim <command>
  run    -prop C01 -seed 1 -run 0 [-thorough] [-v] [-save file]   one run (debugging)
  worker -prop C01 -seed 1 -from 0 -to 50 [-thorough]             runs [from,to), JSON lines on stdout
  check  <property> <quick|thorough>                              the registered check
  replay <file>                                                   replay a trace file
  selftest-determinism [-n 64]`)
	os.Exit(2)
}

func main() {
	if len(os.Args) < 2 {
		usage()
	}
	switch os.Args[1] {
	case "run":
		cmdRun(os.Args[2:])
	case "worker":
		cmdWorker(os.Args[2:])
	case "check":
		cmdCheck(os.Args[2:])
	case "replay":
		cmdReplay(os.Args[2:])
	case "selftest-determinism":
		cmdSelfDet(os.Args[2:])
	case "phase":
		cmdPhase(os.Args[2:])
	default:
		usage()
	}
}

// oneRun generates and executes run #run; returns the generator (trace, executor).
func oneRun(seed int64, prop string, run int, thorough bool, keepLog bool) (g *Gen, panicked interface{}) {
	g = NewGen(seed, prop, run, thorough)
	g.x.keepLog = keepLog
	g.Run()
	return g, nil
}

func cmdRun(args []string) {
	fs := flag.NewFlagSet("run", flag.ExitOnError)
	prop := fs.String("prop", "C01", "")
	seed := fs.Int64("seed", 1, "")
	run := fs.Int("run", 0, "")
	thorough := fs.Bool("thorough", false, "")
	verbose := fs.Bool("v", false, "")
	save := fs.String("save", "", "")
	nowall := fs.Bool("nowall", false, "")
	fs.Parse(args)
	t0 := time.Now()
	g, _ := oneRun(*seed, *prop, *run, *thorough, *verbose)
	if *verbose {
		for _, l := range g.x.log {
			fmt.Println(l)
		}
	}
	wall := time.Since(t0)
	if *nowall {
		wall = 0
	}
	fmt.Printf("run %d: ops=%d steps=%d blocks=%d txs=%d wall=%v digest=%s\n", *run, len(g.ops), g.x.stats.Steps, g.x.stats.Blocks, g.x.stats.Txs, wall, g.x.cur.Digest()[:16])
	for _, k := range sortedIntKeys(g.x.stats.C) {
		fmt.Printf("  %s=%d\n", k, g.x.stats.C[k])
	}
	for _, v := range g.x.violations {
		b, _ := json.Marshal(v)
		fmt.Println("VIOL", string(b))
	}
	if *save != "" {
		tr := &Trace{Config: g.cfg, Ops: g.ops, Finish: g.x.finished}
		if v := firstArmed(g.cfg, g.x.violations); v != nil {
			tr.Expect = v
		}
		if err := tr.Save(*save); err != nil {
			fmt.Fprintln(os.Stderr, err)
			os.Exit(2)
		}
	}
}

func cmdReplay(args []string) {
	if len(args) < 1 {
		usage()
	}
	t, err := LoadTrace(args[0])
	if err != nil {
		fmt.Fprintln(os.Stderr, "cannot load trace:", err)
		os.Exit(2)
	}
	if t.SplitCut > 0 {
		self, _ := os.Executable()
		d, err := splitCheck(self, t, t.SplitCut)
		if err != nil {
			fmt.Fprintln(os.Stderr, "split replay failed:", err)
			os.Exit(2)
		}
		if d == "" {
			fmt.Printf("REPLAY property=C20 result=no-violation (split execution agrees)\n")
			os.Exit(0)
		}
		fmt.Printf("REPLAY property=C20 result=violation sig=C20.process_restart_divergence\n%s\n", d)
		fmt.Printf("VIOLATION property=C20 replay=%s\n", args[0])
		os.Exit(1)
	}
	r := ExecTrace(t, len(args) > 1 && args[1] == "-v")
	if flakyByNature(t.Expect) && firstArmed(t.Config, r.Violations) == nil {
		// the recorded violation is nondeterminism of the code under test: one execution may happen to agree
		for i := 0; i < 15 && firstArmed(t.Config, r.Violations) == nil; i++ {
			t2, _ := LoadTrace(args[0])
			r = ExecTrace(t2, false)
		}
	}
	for _, l := range r.Log {
		fmt.Println(l)
	}
	v := firstArmed(t.Config, r.Violations)
	if v == nil {
		fmt.Printf("REPLAY property=%s result=no-violation steps=%d digest=%s\n", t.Config.Property, r.Steps, r.Digest[:16])
		if t.Expect != nil {
			fmt.Printf("REPLAY expected %s but the trace no longer violates it\n", t.Expect.Sig())
		}
		os.Exit(0)
	}
	b, _ := json.Marshal(v)
	fmt.Printf("REPLAY property=%s result=violation sig=%s\n%s\n", v.Property, v.Sig(), string(b))
	if t.Expect != nil && t.Expect.Sig() != v.Sig() {
		fmt.Printf("REPLAY note: expected signature %s\n", t.Expect.Sig())
	}
	fmt.Printf("VIOLATION property=%s replay=%s\n", v.Property, args[0])
	os.Exit(1)
}


// selftest-determinism: the same (seed, property, run) executed in several fresh processes under different
// GOMAXPROCS must produce byte-identical event logs, violations and final digests.
func cmdSelfDet(args []string) {
	fs := flag.NewFlagSet("selftest-determinism", flag.ExitOnError)
	n := fs.Int("n", 64, "number of (property, run) pairs")
	seed := fs.Int64("seed", 7, "")
	reps := fs.Int("reps", 3, "processes per pair")
	fs.Parse(args)
	self, _ := os.Executable()
	props := []string{"C01", "C02", "C03", "C04", "C05", "C06", "C07", "C08", "C09", "C10", "C11", "C12", "C13", "C14", "C15", "C16", "C17", "C18", "C19", "C20"}
	procs := []string{"1", "4", "16", "2", "8"}
	type job struct {
		prop string
		run  int
	}
	jobs := make(chan job)
	var mu sync.Mutex
	bad := 0
	done := 0
	var wg sync.WaitGroup
	for w := 0; w < 16; w++ {
		wg.Add(1)
		go func() {
			defer wg.Done()
			for j := range jobs {
				var first []byte
				for r := 0; r < *reps; r++ {
					cmd := exec.Command(self, "run", "-prop", j.prop, "-seed", fmt.Sprint(*seed), "-run", fmt.Sprint(j.run), "-v", "-nowall")
					cmd.Env = append(os.Environ(), "GOMAXPROCS="+procs[r%len(procs)])
					out, _ := cmd.CombinedOutput()
					if r == 0 {
						first = out
					} else if !bytes.Equal(first, out) {
						mu.Lock()
						bad++
						fmt.Printf("NONDETERMINISM property=%s run=%d: process %d (GOMAXPROCS=%s) differs from process 0\n%s\n", j.prop, j.run, r, procs[r%len(procs)], firstLineDiff(first, out))
						mu.Unlock()
					}
				}
				mu.Lock()
				done++
				mu.Unlock()
			}
		}()
	}
	for i := 0; i < *n; i++ {
		jobs <- job{props[i%len(props)], i / len(props)}
	}
	close(jobs)
	wg.Wait()
	fmt.Printf("selftest-determinism: %d (property, run) pairs x %d processes, GOMAXPROCS in %v: %d mismatches\n", done, *reps, procs[:minInt(*reps, len(procs))], bad)
	if bad > 0 {
		os.Exit(2)
	}
}

func firstLineDiff(a, b []byte) string {
	la, lb := strings.Split(string(a), "\n"), strings.Split(string(b), "\n")
	for i := 0; i < len(la) && i < len(lb); i++ {
		if la[i] != lb[i] {
			return fmt.Sprintf("line %d:\n  %s\n  %s", i, la[i], lb[i])
		}
	}
	return fmt.Sprintf("lengths %d vs %d lines", len(la), len(lb))
}
