package main

// The harness's own reading of a binding's *published pricing text* (never the module's parsed 0x06 record),
// with exact rationals. Written from the property statements C07/C14, not from the keeper.

import (
	"encoding/json"
	"fmt"
	"math/big"
	"regexp"
	"time"
)

type hTimePromo struct {
	Start, End time.Time
	Discount   *big.Rat
}
type hVolPromo struct {
	Volume   uint64
	Discount *big.Rat
}
type HPricing struct {
	Base   *big.Int // base price in the base denomination (min unit), truncated
	Denom  string
	ByTime []hTimePromo
	ByVol  []hVolPromo
}

var rePrice = regexp.MustCompile(`^(\d+(?:\.\d+)?)([a-z][a-z0-9]{2,7})$`)

func ParseHPricing(text string) (*HPricing, error) {
	var raw struct {
		Price string `json:"price"`
		ByT   []struct {
			Start    time.Time `json:"start_time"`
			End      time.Time `json:"end_time"`
			Discount string    `json:"discount"`
		} `json:"promotions_by_time"`
		ByV []struct {
			Volume   uint64 `json:"volume"`
			Discount string `json:"discount"`
		} `json:"promotions_by_volume"`
	}
	if err := json.Unmarshal([]byte(text), &raw); err != nil {
		return nil, err
	}
	m := rePrice.FindStringSubmatch(raw.Price)
	if m == nil {
		return nil, fmt.Errorf("price %q", raw.Price)
	}
	amt, ok := new(big.Rat).SetString(m[1])
	if !ok {
		return nil, fmt.Errorf("price amount %q", m[1])
	}
	p := &HPricing{Denom: m[2]}
	p.Base = new(big.Int).Quo(amt.Num(), amt.Denom()) // scale-0 token: the main unit is the min unit; fractions truncate
	for _, t := range raw.ByT {
		d, ok := new(big.Rat).SetString(t.Discount)
		if !ok {
			return nil, fmt.Errorf("discount %q", t.Discount)
		}
		p.ByTime = append(p.ByTime, hTimePromo{t.Start, t.End, d})
	}
	for _, v := range raw.ByV {
		d, ok := new(big.Rat).SetString(v.Discount)
		if !ok {
			return nil, fmt.Errorf("discount %q", v.Discount)
		}
		p.ByVol = append(p.ByVol, hVolPromo{v.Volume, d})
	}
	return p, nil
}

var ratOne = big.NewRat(1, 1)

// timeDiscounts: the discount(s) acceptable at block time t. Start inclusive; the exact end instant is left
// open by the statement ("at the end of"), so both the promotion's discount and what follows are accepted there.
func (p *HPricing) timeDiscounts(t time.Time) []*big.Rat {
	var out []*big.Rat
	inAny := false
	for _, w := range p.ByTime {
		if !t.Before(w.Start) && t.Before(w.End) {
			out = append(out, w.Discount)
			inAny = true
		} else if t.Equal(w.End) {
			out = append(out, w.Discount)
		}
	}
	if !inAny {
		out = append(out, ratOne)
	}
	return out
}

// volDiscounts: discount of the highest threshold <= volume; equal thresholds are legal, then either passes.
func (p *HPricing) volDiscounts(volume uint64) []*big.Rat {
	var best uint64
	found := false
	for _, v := range p.ByVol {
		if v.Volume <= volume && (!found || v.Volume > best) {
			best = v.Volume
			found = true
		}
	}
	if !found {
		return []*big.Rat{ratOne}
	}
	var out []*big.Rat
	for _, v := range p.ByVol {
		if v.Volume == best {
			out = append(out, v.Discount)
		}
	}
	return out
}

var eps18 = new(big.Rat).SetFrac(big.NewInt(1), new(big.Int).Exp(big.NewInt(10), big.NewInt(18), nil))

func floorRat(r *big.Rat) *big.Int {
	q := new(big.Int)
	m := new(big.Int)
	q.DivMod(r.Num(), r.Denom(), m)
	return q
}

// AcceptableFees returns every fee the statement allows for a non-super request at (t, volume).
func (p *HPricing) AcceptableFees(t time.Time, volume uint64) map[string]bool {
	out := map[string]bool{}
	base := new(big.Rat).SetInt(p.Base)
	for _, dt := range p.timeDiscounts(t) {
		for _, dv := range p.volDiscounts(volume) {
			prod := new(big.Rat).Mul(base, dt)
			prod.Mul(prod, dv)
			for _, adj := range []*big.Rat{new(big.Rat), eps18, new(big.Rat).Neg(eps18)} {
				v := new(big.Rat).Add(prod, adj)
				f := floorRat(v)
				if f.Sign() < 1 {
					f = big.NewInt(1)
				}
				out[f.String()] = true
			}
		}
	}
	return out
}

// MinDepositFor: max(minDeposit, base * multiple).
func (p *HPricing) MinDepositFor(minDeposit, multiple int64) *big.Int {
	m := new(big.Int).Mul(p.Base, big.NewInt(multiple))
	md := big.NewInt(minDeposit)
	if m.Cmp(md) < 0 {
		return md
	}
	return m
}
