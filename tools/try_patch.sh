#!/bin/bash
# usage: tools/try_patch.sh <patch.diff> <property> [runs]   — apply a seeded change to /repo, run the quick check, undo.
set -u
patch="$1"; prop="$2"; runs="${3:-1200}"
cd /repo || exit 3
if ! git diff --quiet; then echo "/repo has uncommitted changes; refusing" >&2; exit 3; fi
git apply "$patch" || { echo "patch does not apply" >&2; exit 3; }
trap 'cd /repo && git apply -R "'"$patch"'" 2>/dev/null; git -C /repo checkout -- . ; git -C /repo status --short | head -3' EXIT
cd /verif && VERIF_RUNS=$runs ./check.sh "$prop" quick
echo "exit=$?"
