package main

// Oracle C05: only the rightful party can act; a message debits only its signer.

import (
	"bytes"
	"fmt"

	"github.com/irismod/service/types"
)

func init() {
	oracleTable["C05"] = oracleC05
}

func isModuleAddr(hexAddr string) bool {
	_, ok := moduleAddrs[hexAddr]
	return ok
}

func oracleC05(x *Exec, r *StepRec) {
	pre, post := r.Pre, r.Post
	switch r.Kind {
	case "msgfail":
		if r.Res.Code == "error" {
			x.stats.inc("c05_refused_" + r.Msg.T)
		}
		return
	case "modfail", "commit", "params":
		return
	}
	// nobody but the signer pays
	allowed := map[string]bool{}
	switch r.Kind {
	case "msg":
		allowed[hx(r.Sender)] = true
	case "end":
		for cid := range newRequestsByCtx(pre, post) {
			if c, ok := post.Ctx[cid]; ok {
				allowed[hx(c.Consumer)] = true
			}
		}
	}
	d := balDeltas(pre, post)
	for _, a := range sortedI64Keys(d) {
		if d[a] < 0 && !isModuleAddr(a) && !allowed[a] {
			x.viol("C05", "foreign_debit", fmt.Sprintf("%s at height %d lowered the balance of %s (%s) by %d", describeStep(r), post.Height, addrName(a), a[:12], -d[a]), map[string]string{"step": r.Kind})
			return
		}
	}
	if r.Kind == "mod" {
		m := r.Mod
		if m.T == "create" {
			return
		}
		id := hx(x.resolveCtx(m.Ctx))
		c, ok := pre.Ctx[id]
		if !ok {
			x.viol("C05", "unauthorised_success", fmt.Sprintf("module %s of an unknown context succeeded", m.T), map[string]string{"msg": "mod_" + m.T})
			return
		}
		if c.ModuleName != "" && !bytes.Equal(c.Consumer, resolveAddr(m.Consumer)) {
			x.viol("C05", "unauthorised_success", fmt.Sprintf("module %s with the wrong consumer succeeded on a module-owned context", m.T), map[string]string{"msg": "mod_" + m.T})
		}
		return
	}
	if r.Kind != "msg" {
		return
	}
	m := r.Msg
	signer := r.Sender
	bad := func(why string) {
		x.viol("C05", "unauthorised_success", fmt.Sprintf("height %d: %s signed by %s succeeded: %s", post.Height, m.T, r.Tx.Sender, why), map[string]string{"msg": m.T})
	}
	x.stats.inc("c05_ok_" + m.T)
	switch m.T {
	case "update", "disable", "enable", "refund":
		bk := bkey(m.Svc, resolveAddr(m.Prov))
		b, ok := pre.Bindings[bk]
		if !ok {
			bad("binding does not exist")
		} else {
			owner := []byte(b.Owner)
			if bi := x.tr.Binds[bk]; bi != nil {
				owner = bi.Owner // the owner the binding was created with (ledger), not whatever is stored now
			}
			if !bytes.Equal(owner, signer) {
				bad("signer is not the owner of the binding")
			}
		}
	case "withdraw":
		if m.Prov != "" {
			p := resolveAddr(m.Prov)
			o, ok := x.tr.ProviderOwner[hx(p)]
			if !ok {
				o, ok = pre.OwnerOf[hx(p)]
			}
			if !ok || !bytes.Equal(o, signer) {
				bad("signer is not the owner of that provider")
			}
		}
	case "pause", "start", "kill", "updctx":
		id := x.namedCtx(r)
		c, ok := pre.Ctx[id]
		switch {
		case !ok:
			bad("unknown context")
		case !bytes.Equal(c.Consumer, signer):
			bad("signer is not the consumer of the context")
		case c.ModuleName != "":
			bad("context was created by module " + c.ModuleName)
		}
	case "respond":
		rid := hx(r.SdkMsg.(*types.MsgRespondService).RequestId)
		q, ok := pre.Req[rid]
		if !ok {
			bad("unknown request")
		} else if !bytes.Equal(q.Provider, signer) {
			bad("signer is not the provider the request was addressed to")
		}
	case "bind":
		p := resolveAddr(m.Prov)
		if o, ok := x.tr.ProviderOwner[hx(p)]; ok && !bytes.Equal(o, signer) {
			bad("provider already belongs to another owner")
		} else if o, ok := pre.OwnerOf[hx(p)]; ok && !bytes.Equal(o, signer) {
			bad("provider already belongs to another owner")
		}
		if x.cfg.ModuleService && m.Svc == types.OraclePriceServiceName {
			bad("service is reserved by a module")
		}
	case "setwd":
		for _, o := range sortedBytesKeys(post.Withdraw) {
			if !bytes.Equal(pre.Withdraw[o], post.Withdraw[o]) && o != hx(signer) {
				bad("changed the withdrawal address of " + addrName(o))
			}
		}
	}
}

func sortedBytesKeys(m map[string][]byte) []string {
	keys := map[string]bool{}
	for k := range m {
		keys[k] = true
	}
	return sortedKeys(keys)
}
