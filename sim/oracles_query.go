package main

// Oracle C17: every query, on both routes, returns exactly the stored state.
// In-block: the gRPC server methods and the legacy querier are called directly on the block's context.
// After Commit: the real BaseApp.Query entry point on both routes (/irismod.service.Query/* and custom/service/*).
// Truth comes from the raw-store snapshot. gRPC answers are compared as protobuf records; legacy answers as
// JSON documents against the amino-JSON rendering of the same expected records (so that addresses of any length
// can be compared without going through the SDK's 20-byte address parser).

import (
	"bytes"
	"encoding/json"
	"fmt"
	"sort"

	"github.com/gogo/protobuf/proto"
	abci "github.com/tendermint/tendermint/abci/types"
	tmbytes "github.com/tendermint/tendermint/libs/bytes"

	"github.com/cosmos/cosmos-sdk/codec"
	sdk "github.com/cosmos/cosmos-sdk/types"

	"github.com/irismod/service/keeper"
	"github.com/irismod/service/types"
)

func init() {
	oracleTable["C17"] = oracleC17
}

type qcase struct {
	name, desc string
	grpcPath   string
	grpcReq    proto.Message
	grpcResp   func() proto.Message
	grpcItems  func(proto.Message) []interface{}
	direct     func(k keeper.Keeper, ctx sdk.Context) (proto.Message, error)
	legacyPath string
	legacyPar  interface{}
	legacyList bool
	want       []interface{} // expected records (typed values)
	wantErr    bool
	addrLen    int
}

type marshaler interface{ Marshal() ([]byte, error) }

func pm(m marshaler) string {
	bz, err := m.Marshal()
	if err != nil {
		return "MARSHAL-ERR"
	}
	return string(bz)
}

// canonItem: canonical string of a record returned by the gRPC route / expected.
func canonItem(v interface{}) string {
	switch t := v.(type) {
	case marshaler:
		return pm(t)
	case sdk.AccAddress:
		return "addr:" + hx(t)
	case sdk.Coins:
		return "coins:" + t.String()
	case string:
		return "str:" + t
	}
	return fmt.Sprintf("?%T", v)
}

// canonJSON: key-sorted compact JSON.
func canonJSON(bz []byte) (string, error) {
	dec := json.NewDecoder(bytes.NewReader(bz))
	dec.UseNumber()
	var v interface{}
	if err := dec.Decode(&v); err != nil {
		return "", err
	}
	out, err := json.Marshal(v)
	return string(out), err
}

func buildRequest(s *Snap, rid string) *types.Request {
	q, ok := s.Req[rid]
	if !ok {
		return &types.Request{}
	}
	c, ok := s.Ctx[hx(q.RequestContextId)]
	if !ok {
		return &types.Request{}
	}
	idb, _ := hexDecode(rid)
	return &types.Request{Id: idb, ServiceName: c.ServiceName, Provider: q.Provider, Consumer: c.Consumer, Input: c.Input, ServiceFee: q.ServiceFee,
		SuperMode: c.SuperMode, RequestHeight: q.RequestHeight, ExpirationHeight: q.ExpirationHeight, RequestContextId: q.RequestContextId,
		RequestContextBatchCounter: q.RequestContextBatchCounter}
}

func sortedCopy(s []string) []string {
	o := append([]string{}, s...)
	sort.Strings(o)
	return o
}

func one(v interface{}) []interface{} { return []interface{}{v} }

// queryCases: arguments drawn from the existing and non-existing subjects of the state.
func (x *Exec) queryCases(s *Snap) []qcase {
	var cs []qcase
	names := dedup(append(sortedDefNames(s), "nosuch", "a"))
	// Non-20-byte address arguments cannot be expressed on the legacy route (known finding A20-C17); they are
	// asked on that route only in every tenth run so that the other nine explore everything else.
	oddAddrs := x.cfg.Run%10 == 0
	provSet := map[string]bool{hx(acctAddr(0)): true}
	if oddAddrs {
		provSet[hx([]byte{0x01})] = true
	}
	ownerSet := map[string]bool{hx(acctAddr(1)): true}
	for _, bk := range s.BindingKeys() {
		b := s.Bindings[bk]
		provSet[hx(b.Provider)] = true
		ownerSet[hx(b.Owner)] = true
	}
	for o := range s.Withdraw {
		ownerSet[o] = true
	}
	provs := sortedKeys(provSet)
	owners := sortedKeys(ownerSet)
	limit := func(l []string, n int, salt int) []string {
		if len(l) <= n {
			return l
		}
		out := []string{}
		for i := 0; i < n; i++ {
			out = append(out, l[(salt+i*7)%len(l)])
		}
		return dedup(out)
	}
	salt := int(s.Height % 1000)
	wrap := sdk.WrapSDKContext

	for _, n := range names {
		n := n
		c := qcase{name: "definition", desc: n, grpcPath: "/irismod.service.Query/Definition", grpcReq: &types.QueryDefinitionRequest{ServiceName: n},
			grpcResp:  func() proto.Message { return &types.QueryDefinitionResponse{} },
			grpcItems: func(m proto.Message) []interface{} { return one(m.(*types.QueryDefinitionResponse).ServiceDefinition) },
			direct: func(k keeper.Keeper, ctx sdk.Context) (proto.Message, error) {
				return k.Definition(wrap(ctx), &types.QueryDefinitionRequest{ServiceName: n})
			},
			legacyPath: types.QueryDefinition, legacyPar: types.QueryDefinitionParams{ServiceName: n}}
		if d, ok := s.Defs[n]; ok {
			c.want = one(d)
		} else {
			c.wantErr = true
		}
		cs = append(cs, c)
	}
	for _, n := range limit(names, 3, salt) {
		// (the empty provider is a legal argument too: no binding, no pending requests)
		for _, ph := range append(limit(provs, 4, salt), "") {
			n, ph := n, ph
			pb, _ := hexDecode(ph)
			c := qcase{name: "binding", desc: n + "/" + ph, addrLen: len(pb), grpcPath: "/irismod.service.Query/Binding", grpcReq: &types.QueryBindingRequest{ServiceName: n, Provider: pb},
				grpcResp:  func() proto.Message { return &types.QueryBindingResponse{} },
				grpcItems: func(m proto.Message) []interface{} { return one(m.(*types.QueryBindingResponse).ServiceBinding) },
				direct: func(k keeper.Keeper, ctx sdk.Context) (proto.Message, error) {
					return k.Binding(wrap(ctx), &types.QueryBindingRequest{ServiceName: n, Provider: pb})
				},
				legacyPath: types.QueryBinding, legacyPar: types.QueryBindingParams{ServiceName: n, Provider: pb}}
			if b, ok := s.Bindings[bkey(n, pb)]; ok {
				c.want = one(b)
			} else {
				c.wantErr = true
			}
			cs = append(cs, c)

			c2 := qcase{name: "requests", desc: n + "/" + ph, addrLen: len(pb), legacyList: true, grpcPath: "/irismod.service.Query/Requests", grpcReq: &types.QueryRequestsRequest{ServiceName: n, Provider: pb},
				grpcResp: func() proto.Message { return &types.QueryRequestsResponse{} },
				grpcItems: func(m proto.Message) []interface{} {
					var out []interface{}
					for _, q := range m.(*types.QueryRequestsResponse).Requests {
						out = append(out, q)
					}
					return out
				},
				direct: func(k keeper.Keeper, ctx sdk.Context) (proto.Message, error) {
					return k.Requests(wrap(ctx), &types.QueryRequestsRequest{ServiceName: n, Provider: pb})
				},
				legacyPath: types.QueryRequests, legacyPar: types.QueryRequestsParams{ServiceName: n, Provider: pb}}
			bech := sdk.AccAddress(pb).String()
			c2.want = []interface{}{}
			for _, a := range s.Active14 {
				if a.Svc == n && a.Prov == bech {
					c2.want = append(c2.want, buildRequest(s, a.ReqID))
				}
			}
			cs = append(cs, c2)
		}
		for _, oh := range append(limit(owners, 3, salt), "") {
			n, oh := n, oh
			ob, _ := hexDecode(oh)
			c := qcase{name: "bindings", desc: n + "/" + oh, addrLen: len(ob), legacyList: true, grpcPath: "/irismod.service.Query/Bindings", grpcReq: &types.QueryBindingsRequest{ServiceName: n, Owner: ob},
				grpcResp: func() proto.Message { return &types.QueryBindingsResponse{} },
				grpcItems: func(m proto.Message) []interface{} {
					var out []interface{}
					for _, b := range m.(*types.QueryBindingsResponse).ServiceBindings {
						out = append(out, b)
					}
					return out
				},
				direct: func(k keeper.Keeper, ctx sdk.Context) (proto.Message, error) {
					return k.Bindings(wrap(ctx), &types.QueryBindingsRequest{ServiceName: n, Owner: ob})
				},
				legacyPath: types.QueryBindings, legacyPar: types.QueryBindingsParams{ServiceName: n, Owner: ob}}
			if oh != "" && len(ob) != 20 {
				continue // owners sign, hence are 20 bytes (H4)
			}
			c.want = []interface{}{}
			for _, bk := range s.BindingKeys() {
				b := s.Bindings[bk]
				if b.ServiceName == n && (oh == "" || bytes.Equal(b.Owner, ob)) {
					c.want = append(c.want, b)
				}
			}
			cs = append(cs, c)
		}
	}
	for _, oh := range limit(owners, 4, salt) {
		oh := oh
		ob, _ := hexDecode(oh)
		c := qcase{name: "withdraw_address", desc: oh, addrLen: len(ob), grpcPath: "/irismod.service.Query/WithdrawAddress", grpcReq: &types.QueryWithdrawAddressRequest{Owner: ob},
			grpcResp:  func() proto.Message { return &types.QueryWithdrawAddressResponse{} },
			grpcItems: func(m proto.Message) []interface{} { return one(m.(*types.QueryWithdrawAddressResponse).WithdrawAddress) },
			direct: func(k keeper.Keeper, ctx sdk.Context) (proto.Message, error) {
				return k.WithdrawAddress(wrap(ctx), &types.QueryWithdrawAddressRequest{Owner: ob})
			},
			legacyPath: types.QueryWithdrawAddress, legacyPar: types.QueryWithdrawAddressParams{Owner: ob}}
		if w, ok := s.Withdraw[oh]; ok {
			c.want = one(sdk.AccAddress(w))
		} else {
			c.want = one(sdk.AccAddress(ob))
		}
		cs = append(cs, c)
	}
	for _, ph := range limit(provs, 5, salt) {
		ph := ph
		pb, _ := hexDecode(ph)
		c := qcase{name: "earned_fees", desc: ph, addrLen: len(pb), grpcPath: "/irismod.service.Query/EarnedFees", grpcReq: &types.QueryEarnedFeesRequest{Provider: pb},
			grpcResp:  func() proto.Message { return &types.QueryEarnedFeesResponse{} },
			grpcItems: func(m proto.Message) []interface{} { return one(m.(*types.QueryEarnedFeesResponse).Fees) },
			direct: func(k keeper.Keeper, ctx sdk.Context) (proto.Message, error) {
				return k.EarnedFees(wrap(ctx), &types.QueryEarnedFeesRequest{Provider: pb})
			},
			legacyPath: types.QueryEarnedFees, legacyPar: types.QueryEarnedFeesParams{Provider: pb}}
		fees := sdk.NewCoins()
		if amt := s.EarnedOf(pb); amt > 0 {
			fees = sdk.NewCoins(sdk.NewCoin("stake", sdk.NewInt(amt)))
		}
		c.want = one(fees)
		cs = append(cs, c)
	}
	ctxIDs := append(limit(s.CtxIDs(), 4, salt), hx(bytes.Repeat([]byte{0x42}, 40)))
	for _, cid := range ctxIDs {
		cid := cid
		cb, _ := hexDecode(cid)
		c := qcase{name: "context", desc: cid[:12], grpcPath: "/irismod.service.Query/RequestContext", grpcReq: &types.QueryRequestContextRequest{RequestContextId: cb},
			grpcResp:  func() proto.Message { return &types.QueryRequestContextResponse{} },
			grpcItems: func(m proto.Message) []interface{} { return one(m.(*types.QueryRequestContextResponse).RequestContext) },
			direct: func(k keeper.Keeper, ctx sdk.Context) (proto.Message, error) {
				return k.RequestContext(wrap(ctx), &types.QueryRequestContextRequest{RequestContextId: cb})
			},
			legacyPath: types.QueryRequestContext, legacyPar: types.QueryRequestContextParams{RequestContextID: cb}}
		if rc, ok := s.Ctx[cid]; ok {
			c.want = one(rc)
		} else {
			c.want = one(&types.RequestContext{})
		}
		cs = append(cs, c)
		var batches []uint64
		if rc, ok := s.Ctx[cid]; ok {
			batches = []uint64{rc.BatchCounter, rc.BatchCounter + 1}
			if rc.BatchCounter > 0 {
				batches = append(batches, rc.BatchCounter-1)
			}
		} else {
			batches = []uint64{1}
		}
		for _, batch := range batches {
			batch := batch
			reqs, resps := batchRecords(s, cid, batch)
			c1 := qcase{name: "requests_by_ctx", desc: fmt.Sprintf("%s/%d", cid[:12], batch), legacyList: true, grpcPath: "/irismod.service.Query/RequestsByReqCtx",
				grpcReq:  &types.QueryRequestsByReqCtxRequest{RequestContextId: cb, BatchCounter: batch},
				grpcResp: func() proto.Message { return &types.QueryRequestsByReqCtxResponse{} },
				grpcItems: func(m proto.Message) []interface{} {
					var out []interface{}
					for _, q := range m.(*types.QueryRequestsByReqCtxResponse).Requests {
						out = append(out, q)
					}
					return out
				},
				direct: func(k keeper.Keeper, ctx sdk.Context) (proto.Message, error) {
					return k.RequestsByReqCtx(wrap(ctx), &types.QueryRequestsByReqCtxRequest{RequestContextId: cb, BatchCounter: batch})
				},
				legacyPath: types.QueryRequestsByReqCtx, legacyPar: types.QueryRequestsByReqCtxParams{RequestContextID: cb, BatchCounter: batch}}
			c1.want = []interface{}{}
			for _, rid := range reqs {
				c1.want = append(c1.want, buildRequest(s, rid))
			}
			cs = append(cs, c1)
			c2 := qcase{name: "responses", desc: fmt.Sprintf("%s/%d", cid[:12], batch), legacyList: true, grpcPath: "/irismod.service.Query/Responses",
				grpcReq:  &types.QueryResponsesRequest{RequestContextId: cb, BatchCounter: batch},
				grpcResp: func() proto.Message { return &types.QueryResponsesResponse{} },
				grpcItems: func(m proto.Message) []interface{} {
					var out []interface{}
					for _, q := range m.(*types.QueryResponsesResponse).Responses {
						out = append(out, q)
					}
					return out
				},
				direct: func(k keeper.Keeper, ctx sdk.Context) (proto.Message, error) {
					return k.Responses(wrap(ctx), &types.QueryResponsesRequest{RequestContextId: cb, BatchCounter: batch})
				},
				legacyPath: types.QueryResponses, legacyPar: types.QueryResponsesParams{RequestContextID: cb, BatchCounter: batch}}
			c2.want = []interface{}{}
			for _, rid := range resps {
				c2.want = append(c2.want, s.Resp[rid])
			}
			cs = append(cs, c2)
		}
	}
	reqIDs := append(limit(s.ReqIDs(), 5, salt), hx(bytes.Repeat([]byte{0x43}, 58)))
	for _, rid := range reqIDs {
		rid := rid
		rb, _ := hexDecode(rid)
		c := qcase{name: "request", desc: rid[:12], grpcPath: "/irismod.service.Query/Request", grpcReq: &types.QueryRequestRequest{RequestId: rb},
			grpcResp:  func() proto.Message { return &types.QueryRequestResponse{} },
			grpcItems: func(m proto.Message) []interface{} { return one(m.(*types.QueryRequestResponse).Request) },
			direct: func(k keeper.Keeper, ctx sdk.Context) (proto.Message, error) {
				return k.Request(wrap(ctx), &types.QueryRequestRequest{RequestId: rb})
			},
			legacyPath: types.QueryRequest, legacyPar: types.QueryRequestParams{RequestID: rb}}
		c.want = one(buildRequest(s, rid))
		cs = append(cs, c)
		c2 := qcase{name: "response", desc: rid[:12], grpcPath: "/irismod.service.Query/Response", grpcReq: &types.QueryResponseRequest{RequestId: rb},
			grpcResp:  func() proto.Message { return &types.QueryResponseResponse{} },
			grpcItems: func(m proto.Message) []interface{} { return one(m.(*types.QueryResponseResponse).Response) },
			direct: func(k keeper.Keeper, ctx sdk.Context) (proto.Message, error) {
				return k.Response(wrap(ctx), &types.QueryResponseRequest{RequestId: rb})
			},
			legacyPath: types.QueryResponse, legacyPar: types.QueryResponseParams{RequestID: tmbytes.HexBytes(rb)}}
		if p, ok := s.Resp[rid]; ok {
			c2.want = one(p)
		} else {
			c2.want = one(&types.Response{})
		}
		cs = append(cs, c2)
	}
	pp := s.Params
	pc := qcase{name: "params", grpcPath: "/irismod.service.Query/Params", grpcReq: &types.QueryParamsRequest{},
		grpcResp:  func() proto.Message { return &types.QueryParamsResponse{} },
		grpcItems: func(m proto.Message) []interface{} { p := m.(*types.QueryParamsResponse).Params; return one(&p) },
		direct: func(k keeper.Keeper, ctx sdk.Context) (proto.Message, error) {
			return k.Params(wrap(ctx), &types.QueryParamsRequest{})
		},
		legacyPath: types.QueryParameters, legacyPar: nil, want: one(&pp)}
	cs = append(cs, pc)
	for _, sn := range []string{"pricing", "result", "Pricing", "nosuch"} {
		sn := sn
		c := qcase{name: "schema", desc: sn, grpcPath: "/irismod.service.Query/Schema", grpcReq: &types.QuerySchemaRequest{SchemaName: sn},
			grpcResp:  func() proto.Message { return &types.QuerySchemaResponse{} },
			grpcItems: func(m proto.Message) []interface{} { return one(m.(*types.QuerySchemaResponse).Schema) },
			direct: func(k keeper.Keeper, ctx sdk.Context) (proto.Message, error) {
				return k.Schema(wrap(ctx), &types.QuerySchemaRequest{SchemaName: sn})
			},
			legacyPath: types.QuerySchema, legacyPar: types.QuerySchemaParams{SchemaName: sn}}
		switch sn {
		case "pricing", "Pricing":
			c.want = one(types.PricingSchema)
		case "result":
			c.want = one(types.ResultSchema)
		default:
			c.wantErr = true
		}
		cs = append(cs, c)
	}
	return cs
}

func sameSet(a, b []string) bool {
	a, b = sortedCopy(a), sortedCopy(b)
	if len(a) != len(b) {
		return false
	}
	for i := range a {
		if a[i] != b[i] {
			return false
		}
	}
	return true
}

// legacyItems: the JSON document(s) of a legacy answer, canonicalised.
func legacyItems(c *qcase, bz []byte) ([]string, error) {
	if !c.legacyList {
		j, err := canonJSON(bz)
		return []string{j}, err
	}
	var arr []json.RawMessage
	if err := json.Unmarshal(bz, &arr); err != nil {
		return nil, err
	}
	out := []string{}
	for _, e := range arr {
		j, err := canonJSON(e)
		if err != nil {
			return nil, err
		}
		out = append(out, j)
	}
	return out, nil
}

func legacyWant(c *qcase, cdc *codec.LegacyAmino) []string {
	out := []string{}
	for _, v := range c.want {
		bz, err := cdc.MarshalJSON(v)
		if err != nil {
			out = append(out, "MARSHAL-ERR "+err.Error())
			continue
		}
		j, _ := canonJSON(bz)
		out = append(out, j)
	}
	return out
}

func grpcWant(c *qcase) []string {
	out := []string{}
	for _, v := range c.want {
		out = append(out, canonItem(v))
	}
	return out
}

func oracleC17(x *Exec, r *StepRec) {
	if r.Kind != "end" && r.Kind != "commit" {
		return
	}
	s := r.Post
	h := x.H()
	cdc := h.app.LegacyAmino()
	cases := x.queryCases(s)
	attrs := func(c *qcase, route string) map[string]string {
		a := c13Attrs(x, s)
		a["query"] = c.name
		if c.addrLen != 0 && c.addrLen != 20 && (route == "legacy" || route == "abci_legacy") {
			a["address_argument_len_not_20"] = "true"
		}
		return a
	}
	judge := func(c *qcase, route string, got, want []string, err error) bool {
		x.stats.inc("probe_query_" + c.name)
		if c.wantErr {
			if err == nil {
				x.viol("C17", c.name+"_"+route, fmt.Sprintf("height %d: query %s(%s) via %s succeeded for a non-existing subject", s.Height, c.name, c.desc, route), attrs(c, route))
				return false
			}
			x.stats.inc("probe_query_nonexisting")
			return true
		}
		if err != nil {
			x.viol("C17", c.name+"_"+route, fmt.Sprintf("height %d: query %s(%s) via %s failed: %v", s.Height, c.name, c.desc, route, err), attrs(c, route))
			return false
		}
		if !sameSet(got, want) {
			x.viol("C17", c.name+"_"+route, fmt.Sprintf("height %d: query %s(%s) via %s returned %d record(s) %q, the store holds %d %q", s.Height, c.name, c.desc, route, len(got), trunc(got), len(want), trunc(want)), attrs(c, route))
			return false
		}
		return true
	}
	canonAll := func(c *qcase, m proto.Message) []string {
		out := []string{}
		for _, v := range c.grpcItems(m) {
			out = append(out, canonItem(v))
		}
		return out
	}
	if r.Kind == "end" {
		ctx := h.Ctx()
		legacy := keeper.NewQuerier(h.app.ServiceKeeper, cdc)
		for i := range cases {
			c := &cases[i]
			resp, err := safeDirect(c, h.app.ServiceKeeper, ctx)
			var got []string
			if err == nil {
				got = canonAll(c, resp)
			}
			if !judge(c, "grpc", got, grpcWant(c), err) {
				return
			}
			if skipLegacy(x, c) {
				continue
			}
			var data []byte
			if c.legacyPar != nil {
				data = cdc.MustMarshalJSON(c.legacyPar)
			}
			bz, err := legacy(ctx, []string{c.legacyPath}, abci.RequestQuery{Data: data})
			got = nil
			if err == nil {
				got, err = legacyItems(c, bz)
			}
			if !judge(c, "legacy", got, legacyWant(c, cdc), err) {
				return
			}
		}
		return
	}
	for i := range cases {
		c := &cases[i]
		if skipLegacy(x, c) {
			x.stats.inc("probe_query_legacy_skipped_non20_address")
		}
		reqBz, _ := proto.Marshal(c.grpcReq)
		res := h.Query(c.grpcPath, reqBz)
		var got []string
		var err error
		if res.Code != 0 {
			err = fmt.Errorf("code %d: %s", res.Code, res.Log)
		} else {
			resp := c.grpcResp()
			if e := proto.Unmarshal(res.Value, resp); e != nil {
				err = e
			} else {
				got = canonAll(c, resp)
			}
		}
		if !judge(c, "abci_grpc", got, grpcWant(c), err) {
			return
		}
		if skipLegacy(x, c) {
			continue
		}
		var data []byte
		if c.legacyPar != nil {
			data = cdc.MustMarshalJSON(c.legacyPar)
		}
		res = h.Query("custom/"+types.QuerierRoute+"/"+c.legacyPath, data)
		got, err = nil, nil
		if res.Code != 0 {
			err = fmt.Errorf("code %d: %s", res.Code, res.Log)
		} else {
			got, err = legacyItems(c, res.Value)
		}
		if !judge(c, "abci_legacy", got, legacyWant(c, cdc), err) {
			return
		}
	}
}

func safeDirect(c *qcase, k keeper.Keeper, ctx sdk.Context) (m proto.Message, err error) {
	defer func() {
		if e := recover(); e != nil {
			err = fmt.Errorf("panic: %v", e)
		}
	}()
	return c.direct(k, ctx)
}

func trunc(s []string) []string {
	out := []string{}
	for i, v := range s {
		if i >= 3 {
			break
		}
		if len(v) > 80 {
			v = v[:80]
		}
		out = append(out, v)
	}
	return out
}

func skipLegacy(x *Exec, c *qcase) bool {
	return c.addrLen != 0 && c.addrLen != 20 && x.cfg.Run%10 != 0
}
