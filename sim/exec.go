package main

// Executor: PRNG-free. Applies ops to the real app(s), snapshots after every step, feeds the ledgers (tracker)
// and the armed oracles. The original run and every replay use this same code path.

import (
	"bytes"
	"encoding/hex"
	"fmt"
	"sort"
	"strings"
	"time"

	sdk "github.com/cosmos/cosmos-sdk/types"
	banktypes "github.com/cosmos/cosmos-sdk/x/bank/types"
	authtypes "github.com/cosmos/cosmos-sdk/x/auth/types"

	"github.com/irismod/service/types"
)

type Violation struct {
	Property string            `json:"property"`
	Rule     string            `json:"rule"`
	Attrs    map[string]string `json:"attrs,omitempty"`
	Detail   string            `json:"detail"`
	Step     int               `json:"step"`
	OpIndex  int               `json:"op_index"`
}

func (v Violation) Sig() string {
	keys := make([]string, 0, len(v.Attrs))
	for k := range v.Attrs {
		keys = append(keys, k)
	}
	sort.Strings(keys)
	var sb strings.Builder
	sb.WriteString(v.Property + "." + v.Rule)
	for _, k := range keys {
		sb.WriteString(";" + k + "=" + v.Attrs[k])
	}
	return sb.String()
}

// StepRec is what oracles see.
type StepRec struct {
	Idx     int
	OpIndex int
	Kind    string // begin | msg | msgfail | mod | modfail | end | commit | params | restart
	Op      *Op
	Tx      *TxOp
	MsgIdx  int
	Msg     *MsgOp
	SdkMsg  sdk.Msg
	Mod     *ModOp
	Sender  []byte
	Res     TxResult
	Events  []Ev
	Callbacks []CallbackRec
	// answers the harness's module service gave during this step (its own record, not the service module's)
	ModReplies []ModReply
	Pre, Post *Snap
	Height  int64
	Time    time.Time
	EndPanic string
	// for msgfail: whether the whole tx was aborted by an injected fault (out of gas)
	Injected bool
	MultiMsg bool
	AppHash []byte
}

type concreteOp struct {
	kind   string
	height int64
	t      time.Time
	msgs   []sdk.Msg
	hash   []byte
	idxBase int64
	gas    uint64
	mod    *ModOp
	modHash []byte
	params *ParamsOp
}

type Exec struct {
	cfg   *Config
	hosts []*Host
	cur   *Snap
	tr    *Tracker
	memoCtx map[string]string
	memoReq map[string]string
	// every request id ever seen by (ctxid|batch|provhex)
	steps   int
	opIndex int
	blockOps []concreteOp
	violations []Violation
	armed   map[string]bool
	stats   *RunStats
	log     []string
	keepLog bool
	stopped bool
	lastT   time.Time
	genesis time.Time
	finished bool
	// digest recorded for replicas comparison
	committedHeights int
	// C17/C19 bookkeeping
	probeCount int
	internalErr string
}

func NewExec(cfg *Config) *Exec {
	multiTokenRun = cfg.MultiToken
	x := &Exec{cfg: cfg, memoCtx: map[string]string{}, memoReq: map[string]string{}, armed: map[string]bool{}, stats: newRunStats()}
	n := cfg.Replicas
	if n < 1 {
		n = 1
	}
	for i := 0; i < n; i++ {
		x.hosts = append(x.hosts, NewHost(cfg))
	}
	x.genesis = time.Unix(cfg.GenesisTime, 0).UTC()
	x.lastT = x.genesis
	x.cur = x.hosts[0].TakeSnapshot(x.hosts[0].Ctx())
	x.tr = NewTracker(cfg, x.cur)
	if cfg.Property == "ALL" {
		for p := range oracleTable {
			x.armed[p] = true
		}
	} else {
		x.armed[cfg.Property] = true
	}
	return x
}

func (x *Exec) H() *Host { return x.hosts[0] }

func (x *Exec) report(v Violation) {
	v.Step = x.steps
	v.OpIndex = x.opIndex
	x.violations = append(x.violations, v)
	if x.armed[v.Property] {
		x.stopped = true
	}
}

func (x *Exec) viol(prop, rule, detail string, attrs map[string]string) {
	x.report(Violation{Property: prop, Rule: rule, Detail: detail, Attrs: attrs})
}

// ---- reference resolution ------------------------------------------------------------------------

func resolveAddr(ref string) []byte {
	if i, ok := parseAcctRef(ref); ok {
		return acctAddr(i)
	}
	if strings.HasPrefix(ref, "x:") {
		b, err := hex.DecodeString(ref[2:])
		if err == nil {
			return b
		}
	}
	if strings.HasPrefix(ref, "m:") {
		return authtypes.NewModuleAddress(ref[2:])
	}
	return nil
}

func resolveAddrs(refs []string) []sdk.AccAddress {
	out := make([]sdk.AccAddress, 0, len(refs))
	for _, r := range refs {
		out = append(out, sdk.AccAddress(resolveAddr(r)))
	}
	return out
}

var dummyCtxID = bytes.Repeat([]byte{0xee}, 40)
var dummyReqID = bytes.Repeat([]byte{0xee}, 58)

func (x *Exec) resolveCtx(ref string) []byte {
	if strings.HasPrefix(ref, "x:") {
		b, err := hex.DecodeString(ref[2:])
		if err == nil {
			return b
		}
		return dummyCtxID
	}
	if id, ok := x.memoCtx[ref]; ok {
		b, _ := hex.DecodeString(id)
		return b
	}
	return dummyCtxID
}

func (x *Exec) resolveReq(ref string) []byte {
	if strings.HasPrefix(ref, "x:") {
		b, err := hex.DecodeString(ref[2:])
		if err == nil {
			return b
		}
		return dummyReqID
	}
	cref, batch, pref, ok := splitReqRef(ref)
	if !ok {
		return dummyReqID
	}
	cid, ok := x.memoCtx[cref]
	if !ok {
		return dummyReqID
	}
	key := fmt.Sprintf("%s|%d|%s", cid, batch, hx(resolveAddr(pref)))
	if id, ok := x.memoReq[key]; ok {
		b, _ := hex.DecodeString(id)
		return b
	}
	return dummyReqID
}

func parseCoins(s string) sdk.Coins {
	if s == "" {
		return sdk.Coins{}
	}
	if strings.HasPrefix(s, "!0") {
		// a hand-built coin list holding a zero amount (sdk.ParseCoins / NewCoins would refuse or drop it)
		return sdk.Coins{sdk.Coin{Denom: s[2:], Amount: sdk.ZeroInt()}}
	}
	c, err := sdk.ParseCoins(s)
	if err != nil {
		return sdk.Coins{}
	}
	return c
}

func (x *Exec) buildMsg(tx *TxOp, m *MsgOp) sdk.Msg {
	signer := sdk.AccAddress(resolveAddr(tx.Sender))
	if m.Signer != "" {
		signer = sdk.AccAddress(resolveAddr(m.Signer))
	}
	switch m.T {
	case "define":
		return &types.MsgDefineService{Name: m.Svc, Description: m.Desc, Tags: m.Tags, Author: signer, AuthorDescription: m.Desc, Schemas: m.Schemas}
	case "bind":
		return &types.MsgBindService{ServiceName: m.Svc, Provider: resolveAddr(m.Prov), Deposit: parseCoins(m.Deposit), Pricing: m.Pricing, QoS: m.QoS, Options: m.Options, Owner: signer}
	case "update":
		return &types.MsgUpdateServiceBinding{ServiceName: m.Svc, Provider: resolveAddr(m.Prov), Deposit: parseCoins(m.Deposit), Pricing: m.Pricing, QoS: m.QoS, Options: m.Options, Owner: signer}
	case "setwd":
		return &types.MsgSetWithdrawAddress{Owner: signer, WithdrawAddress: resolveAddr(m.To)}
	case "disable":
		return &types.MsgDisableServiceBinding{ServiceName: m.Svc, Provider: resolveAddr(m.Prov), Owner: signer}
	case "enable":
		return &types.MsgEnableServiceBinding{ServiceName: m.Svc, Provider: resolveAddr(m.Prov), Deposit: parseCoins(m.Deposit), Owner: signer}
	case "refund":
		return &types.MsgRefundServiceDeposit{ServiceName: m.Svc, Provider: resolveAddr(m.Prov), Owner: signer}
	case "call":
		return &types.MsgCallService{ServiceName: m.Svc, Providers: resolveAddrs(m.Providers), Consumer: signer, Input: m.Input,
			ServiceFeeCap: parseCoins(m.FeeCap), Timeout: m.Timeout, SuperMode: m.Super, Repeated: m.Repeated, RepeatedFrequency: m.Freq, RepeatedTotal: m.Total}
	case "respond":
		return &types.MsgRespondService{RequestId: x.resolveReq(m.Req), Provider: signer, Result: m.Result, Output: m.Output}
	case "pause":
		return &types.MsgPauseRequestContext{RequestContextId: x.resolveCtx(m.Ctx), Consumer: signer}
	case "start":
		return &types.MsgStartRequestContext{RequestContextId: x.resolveCtx(m.Ctx), Consumer: signer}
	case "kill":
		return &types.MsgKillRequestContext{RequestContextId: x.resolveCtx(m.Ctx), Consumer: signer}
	case "updctx":
		return &types.MsgUpdateRequestContext{RequestContextId: x.resolveCtx(m.Ctx), Providers: resolveAddrs(m.Providers), Consumer: signer,
			ServiceFeeCap: parseCoins(m.FeeCap), Timeout: m.Timeout, RepeatedFrequency: m.Freq, RepeatedTotal: m.Total}
	case "withdraw":
		var p sdk.AccAddress
		if m.Prov != "" {
			p = resolveAddr(m.Prov)
		}
		return &types.MsgWithdrawEarnedFees{Owner: signer, Provider: p}
	case "send":
		return &banktypes.MsgSend{FromAddress: signer, ToAddress: sdk.AccAddress(resolveAddr(m.To)),
			Amount: sdk.NewCoins(sdk.NewCoin("stake", sdk.NewInt(m.Amount)))}
	}
	panic("unknown msg type " + m.T)
}

// ---- op execution --------------------------------------------------------------------------------

func (x *Exec) logf(format string, a ...interface{}) {
	if x.keepLog {
		x.log = append(x.log, fmt.Sprintf(format, a...))
	}
}

func (x *Exec) snap() *Snap { return x.H().TakeSnapshot(x.H().Ctx()) }

// Apply executes one op. Returns false when the run must stop (violation of the armed property).
func (x *Exec) Apply(op *Op, opIndex int) bool {
	if x.stopped {
		return false
	}
	x.opIndex = opIndex
	switch op.K {
	case "begin":
		x.doBegin(op)
	case "tx":
		if x.H().inBlock {
			x.doTx(op)
		}
	case "mod":
		if x.H().inBlock && !x.H().noForeign {
			x.doMod(op)
		}
	case "params":
		if x.H().inBlock {
			x.doParams(op)
		}
	case "end":
		if x.H().inBlock {
			x.doEnd(op)
		}
	case "crash":
		x.doCrash(op)
	case "probe":
		if !x.H().inBlock {
			x.doProbe(op)
		}
	case "expcont":
		if !x.H().inBlock {
			x.doExportContinue(op)
		}
	case "rate":
		// the feed of the "oracle" module service moves between blocks (inside a block it is constant, so that a block
		// replayed after a crash sees what the first execution saw)
		if !x.H().inBlock && x.cfg.MultiToken {
			for _, h := range x.hosts {
				if op.Rate == "" {
					delete(h.rates, op.Pair)
				} else {
					h.rates[op.Pair] = op.Rate
				}
			}
			// the feed is harness-side state carried by every snapshot: refresh the current one
			cp := *x.cur
			cp.Rates = copyRates(x.H().rates)
			x.cur = &cp
		}
	default:
		panic("unknown op kind " + op.K)
	}
	return !x.stopped
}

func (x *Exec) step(r *StepRec) {
	r.ModReplies = x.H().takeModReplies()
	for i := 1; i < len(x.hosts); i++ {
		x.hosts[i].takeModReplies()
	}
	x.steps++
	r.Idx = x.steps
	r.OpIndex = x.opIndex
	r.Height = x.H().Height()
	r.Time = x.H().Time()
	if r.Post == nil {
		r.Post = x.snap()
	}
	if r.Pre == nil {
		r.Pre = x.cur
	}
	x.stats.Steps++
	x.logf("%d %s h=%d res=%s d=%s", r.Idx, r.Kind, r.Height, r.Res.Code, r.Post.Digest()[:16])
	if len(r.Post.ParseErrs) > 0 && !x.armed["C18"] && !x.armed["C15"] && x.internalErr == "" {
		x.internalErr = "snapshot parse error (harness grammar vs store): " + r.Post.ParseErrs[0]
	}
	x.genericProbes(r)
	// oracles read the tracker as it was before this step, then the ledgers absorb the step
	x.runOracles(r)
	x.tr.Apply(x, r)
	x.cur = r.Post
}

func (x *Exec) doBegin(op *Op) {
	if x.H().inBlock {
		return // malformed trace after minimisation: ignore a begin inside a block
	}
	t := x.genesis.Add(time.Duration(op.T))
	if !t.After(x.lastT) {
		t = x.lastT.Add(1)
	}
	x.lastT = t
	height := x.H().Height() + 1
	if x.H().Height() == 0 && x.cfg.InitialHeight > 1 && x.H().generation == 0 {
		height = x.cfg.InitialHeight
	}
	x.blockOps = x.blockOps[:0]
	c := concreteOp{kind: "begin", height: height, t: t}
	x.blockOps = append(x.blockOps, c)
	for _, h := range x.hosts {
		h.BeginBlock(height, t)
	}
	x.stats.Blocks++
	r := &StepRec{Kind: "begin", Op: op}
	x.step(r)
	x.compareReplicas("begin")
}

func (x *Exec) compareReplicas(where string) {
	if len(x.hosts) < 2 {
		return
	}
	d0 := x.cur.Digest()
	for i := 1; i < len(x.hosts); i++ {
		d := x.hosts[i].TakeSnapshot(x.hosts[i].Ctx()).Digest()
		if d != d0 {
			x.viol("C20", "replica_divergence", fmt.Sprintf("replica %d digest %s != primary %s after %s at height %d", i, d[:16], d0[:16], where, x.H().Height()), nil)
			return
		}
	}
}

func (x *Exec) doTx(op *Op) {
	tx := op.Tx
	sender := resolveAddr(tx.Sender)
	msgs := make([]sdk.Msg, len(tx.Msgs))
	for i := range tx.Msgs {
		msgs[i] = x.buildMsg(tx, &tx.Msgs[i])
	}
	hash := txHashOf(tx)
	// ante stub (H4): every msg must be signed by the tx sender, who holds a key (20-byte account)
	if _, ok := parseAcctRef(tx.Sender); !ok {
		// ... except that a provider bound under an address of another length may sign responses: C13/C18 quantify
		// over providers "of every byte length" having earnings, which presupposes that they can answer
		if !strings.HasPrefix(tx.Sender, "x:") {
			return
		}
		for i := range tx.Msgs {
			if tx.Msgs[i].T != "respond" {
				return
			}
		}
		x.stats.inc("probe_odd_length_provider_response")
	}
	for _, m := range msgs {
		sg := m.GetSigners()
		if len(sg) != 1 || !bytes.Equal(sg[0], sender) {
			x.stats.inc("ante_rejected")
			return
		}
	}
	x.stats.Txs++
	multi := len(msgs) > 1
	var saved *Tracker
	var savedMemoCtx, savedMemoReq map[string]string
	if multi {
		saved = x.tr.Clone()
		savedMemoCtx = cloneStrMap(x.memoCtx)
		savedMemoReq = cloneStrMap(x.memoReq)
		x.stats.inc("multi_msg_tx")
	}
	preTx := x.cur
	applied := 0
	res := x.H().RunTx(msgs, hash, tx.MsgIndexBase, tx.Gas, func(i int, ctx sdk.Context) {
		post := x.H().TakeSnapshot(ctx)
		r := &StepRec{Kind: "msg", Op: op, Tx: tx, MsgIdx: i, Msg: &tx.Msgs[i], SdkMsg: msgs[i], Sender: sender,
			Res: TxResult{Code: "ok", FailedMsg: -1}, Post: post, Callbacks: x.H().TakeCallbacks(), MultiMsg: multi}
		x.step(r)
		applied++
	})
	x.blockOps = append(x.blockOps, concreteOp{kind: "tx", msgs: msgs, hash: hash, idxBase: tx.MsgIndexBase, gas: tx.Gas})
	x.stats.inc("tx_" + res.Code)
	if res.Code != "ok" {
		// H1: nothing of a failed tx survives
		if applied > 0 {
			x.tr = saved
			x.memoCtx = savedMemoCtx
			x.memoReq = savedMemoReq
			x.stats.inc("multi_msg_rollback")
		}
		x.H().TakeCallbacks()
		fm := res.FailedMsg
		if fm < 0 || fm >= len(msgs) {
			fm = 0
		}
		pre := x.cur // tentative state just before the failing msg
		x.cur = preTx
		post := x.snap()
		if post.Digest() != preTx.Digest() {
			panic("internal: failed tx left state behind (host stub broken)")
		}
		r := &StepRec{Kind: "msgfail", Op: op, Tx: tx, MsgIdx: fm, Msg: &tx.Msgs[fm], SdkMsg: msgs[fm], Sender: sender, Res: res,
			Pre: pre, Post: preTx, Injected: res.Code == "oog", MultiMsg: multi}
		x.steps++
		r.Idx = x.steps
		r.OpIndex = x.opIndex
		r.Height = x.H().Height()
		r.Time = x.H().Time()
		x.logf("%d msgfail h=%d res=%s", r.Idx, r.Height, res.Code)
		if res.Code == "panic" {
			a := panicAttrs(res.Err)
			a["msg"] = tx.Msgs[fm].T
			x.viol("C20", "handler_panic", fmt.Sprintf("height %d: %s signed by %s passed ValidateBasic and made the handler panic: %s", r.Height, tx.Msgs[fm].T, tx.Sender, res.Err), a)
		}
		x.stats.inc("fail_" + r.Msg.T)
		x.runOracles(r)
		x.cur = preTx
	} else {
		_ = res.Events
	}
	// replicas
	for i := 1; i < len(x.hosts); i++ {
		rr := x.hosts[i].RunTx(msgs, hash, tx.MsgIndexBase, tx.Gas, nil)
		x.hosts[i].TakeCallbacks()
		// only the result code is compared: error texts are not consensus state (ResponseDeliverTx.Log is not hashed), and
		// the JSON-schema validator reports "the first" of several errors in map order
		if rr.Code != res.Code {
			x.viol("C20", "replica_divergence", fmt.Sprintf("tx result differs on replica %d: %s/%s vs %s/%s", i, rr.Code, errHead(rr.Err), res.Code, errHead(res.Err)), nil)
		}
	}
	x.compareReplicas("tx")
}

// errHead: the error text without the (address-bearing) stack part.
func errHead(e string) string {
	if i := strings.Index(e, " || "); i >= 0 {
		return e[:i]
	}
	return e
}

func cloneStrMap(m map[string]string) map[string]string {
	o := make(map[string]string, len(m))
	for k, v := range m {
		o[k] = v
	}
	return o
}

func (x *Exec) modFn(h *Host, m *ModOp) func(ctx sdk.Context) error {
	k := h.app.ServiceKeeper
	return func(ctx sdk.Context) error {
		consumer := sdk.AccAddress(resolveAddr(m.Consumer))
		switch m.T {
		case "create":
			state := types.RUNNING
			if m.Paused {
				state = types.PAUSED
			}
			mod := m.Module
			if mod == "" {
				mod = foreignModule
			}
			_, err := k.CreateRequestContext(ctx, m.Svc, resolveAddrs(m.Providers), consumer, m.Input, parseCoins(m.FeeCap),
				m.Timeout, m.Super, m.Repeated, m.Freq, m.Total, state, m.Threshold, mod)
			return err
		case "start":
			return k.StartRequestContext(ctx, x.resolveCtx(m.Ctx), consumer)
		case "pause":
			return k.PauseRequestContext(ctx, x.resolveCtx(m.Ctx), consumer)
		case "kill":
			return k.KillRequestContext(ctx, x.resolveCtx(m.Ctx), consumer)
		case "update":
			return k.UpdateRequestContext(ctx, x.resolveCtx(m.Ctx), resolveAddrs(m.Providers), m.Threshold, parseCoins(m.FeeCap), m.Timeout, m.Freq, m.Total, consumer)
		}
		return fmt.Errorf("unknown mod op %s", m.T)
	}
}

func modHash(m *ModOp) []byte {
	return txHashOf(&TxOp{Label: "mod-" + m.Label})
}

func (x *Exec) doMod(op *Op) {
	m := op.Mod
	hash := modHash(m)
	res := x.H().RunModule(hash, x.modFn(x.H(), m))
	x.blockOps = append(x.blockOps, concreteOp{kind: "mod", mod: m, modHash: hash})
	x.stats.inc("mod_" + res.Code)
	kind := "mod"
	if res.Code != "ok" {
		kind = "modfail"
	}
	r := &StepRec{Kind: kind, Op: op, Mod: m, Res: res, Callbacks: x.H().TakeCallbacks(), Sender: resolveAddr(m.Consumer)}
	x.step(r)
	for i := 1; i < len(x.hosts); i++ {
		rr := x.hosts[i].RunModule(hash, x.modFn(x.hosts[i], m))
		x.hosts[i].TakeCallbacks()
		if rr.Code != res.Code {
			x.viol("C20", "replica_divergence", fmt.Sprintf("module op result differs on replica %d", i), nil)
		}
	}
	x.compareReplicas("mod")
}

func (x *Exec) doParams(op *Op) {
	for _, h := range x.hosts {
		h.SetParams(op.Par)
	}
	x.blockOps = append(x.blockOps, concreteOp{kind: "params", params: op.Par})
	x.stats.inc("fault_param_change")
	x.step(&StepRec{Kind: "params", Op: op})
}

func (x *Exec) doEnd(op *Op) {
	evs, pmsg := x.H().EndBlock()
	r := &StepRec{Kind: "end", Op: op, Events: evs, EndPanic: pmsg, Callbacks: x.H().TakeCallbacks()}
	if pmsg != "" {
		x.viol("C20", "endblock_panic", pmsg, panicAttrs(pmsg))
		x.stopped = true // the chain is halted; nothing after this is meaningful
		return
	}
	x.step(r)
	for i := 1; i < len(x.hosts); i++ {
		_, p := x.hosts[i].EndBlock()
		x.hosts[i].TakeCallbacks()
		if p != "" {
			x.viol("C20", "endblock_panic", p, nil)
		}
	}
	x.compareReplicas("end")
	if x.stopped {
		return
	}
	// commit
	var hashes [][]byte
	for _, h := range x.hosts {
		hashes = append(hashes, h.Commit())
	}
	for i := 1; i < len(hashes); i++ {
		if !bytes.Equal(hashes[i], hashes[0]) {
			x.viol("C20", "apphash_divergence", fmt.Sprintf("app hash of replica %d differs at height %d", i, x.H().Height()), nil)
		}
	}
	x.blockOps = x.blockOps[:0]
	cr := &StepRec{Kind: "commit", Op: op, AppHash: hashes[0]}
	x.step(cr)
	if cr.Post.Digest() != cr.Pre.Digest() {
		x.viol("C20", "commit_changed_state", "state differs before/after Commit", nil)
	}
}

func panicAttrs(msg string) map[string]string {
	a := map[string]string{}
	switch {
	case strings.Contains(msg, "index out of range"):
		a["panic"] = "index_out_of_range"
	case strings.Contains(msg, "nil pointer"):
		a["panic"] = "nil_pointer"
	default:
		a["panic"] = "other"
	}
	return a
}

// doCrash: the chosen replica dies now; only committed state survives; it restarts and replays the interrupted block.
func (x *Exec) doCrash(op *Op) {
	ri := op.Replica
	if ri < 0 || ri >= len(x.hosts) {
		ri = 0
	}
	h := x.hosts[ri]
	wasIn := h.inBlock
	before := h.TakeSnapshot(h.Ctx()).Digest()
	h.Restart()
	x.stats.inc("fault_crash_restart")
	if wasIn {
		x.stats.inc("fault_crash_mid_block")
		for _, c := range x.blockOps {
			switch c.kind {
			case "begin":
				h.BeginBlock(c.height, c.t)
			case "tx":
				h.RunTx(c.msgs, c.hash, c.idxBase, c.gas, nil)
			case "mod":
				h.RunModule(c.modHash, x.modFn(h, c.mod))
			case "params":
				h.SetParams(c.params)
			}
		}
		h.TakeCallbacks()
	}
	after := h.TakeSnapshot(h.Ctx()).Digest()
	if before != after {
		x.viol("C20", "crash_replay_divergence", fmt.Sprintf("replica %d: state after restart+replay differs (height %d, mid-block=%v)", ri, h.Height(), wasIn), nil)
	}
	if ri == 0 {
		// keep tracker / cur as they are: state is identical by the check above
		x.steps++
		x.logf("%d restart h=%d d=%s", x.steps, h.Height(), after[:16])
	}
}

// Finish runs the history rules (after the drain).
func (x *Exec) Finish() {
	if x.stopped || x.finished {
		return
	}
	x.finished = true
	for _, p := range sortedKeys(x.armed) {
		if f, ok := finishTable[p]; ok {
			f(x)
		}
	}
}

func (x *Exec) runOracles(r *StepRec) {
	for _, p := range sortedKeys(x.armed) {
		if f, ok := oracleTable[p]; ok {
			f(x, r)
		}
	}
}

type oracleFn func(x *Exec, r *StepRec)

var oracleTable = map[string]oracleFn{}
var finishTable = map[string]func(x *Exec){}
