package main

// Oracles C06–C12, C16: batch issuance, pricing, response window, lifecycle, cadence, scheduling, bookkeeping, cleanup.

import (
	"math/big"
	"bytes"
	"fmt"
	"sort"

	sdk "github.com/cosmos/cosmos-sdk/types"

	"github.com/irismod/service/types"
)

func init() {
	oracleTable["C06"] = oracleC06
	oracleTable["C07"] = oracleC07
	oracleTable["C08"] = oracleC08
	oracleTable["C09"] = oracleC09
	oracleTable["C10"] = oracleC10
	oracleTable["C11"] = oracleC11
	finishTable["C11"] = finishC11
	oracleTable["C12"] = oracleC12
	oracleTable["C16"] = oracleC16
}

// newRequestsOf: requests present in post but not in pre, grouped by context id, in id order (= index order).
func newRequestsByCtx(pre, post *Snap) map[string][]string {
	out := map[string][]string{}
	for _, rid := range post.ReqIDs() {
		if _, old := pre.Req[rid]; old {
			continue
		}
		cid := hx(post.Req[rid].RequestContextId)
		out[cid] = append(out[cid], rid)
	}
	return out
}

// namedCtx: the context id a msg / module op refers to.
func (x *Exec) namedCtx(r *StepRec) string {
	switch m := r.SdkMsg.(type) {
	case *types.MsgPauseRequestContext:
		return hx(m.RequestContextId)
	case *types.MsgStartRequestContext:
		return hx(m.RequestContextId)
	case *types.MsgKillRequestContext:
		return hx(m.RequestContextId)
	case *types.MsgUpdateRequestContext:
		return hx(m.RequestContextId)
	}
	if r.Mod != nil && r.Mod.Ctx != "" {
		return hx(x.resolveCtx(r.Mod.Ctx))
	}
	return ""
}

func stepVerb(r *StepRec) string {
	if r.Kind == "msg" || r.Kind == "msgfail" {
		return r.Msg.T
	}
	if r.Kind == "mod" || r.Kind == "modfail" {
		if r.Mod.T == "update" {
			return "updctx"
		}
		return r.Mod.T
	}
	return r.Kind
}

// ---- C06 / C07 -----------------------------------------------------------------------------------

type eligibility struct {
	must, may map[string]bool // hex provider
	minTotal, maxTotal int64
	// unpriced: a candidate publishes its price in a foreign token for which the feed has no usable rate; the batch
	// cannot be priced and the statement says nothing about what then happens to it (C11 still demands progress)
	unpriced    bool
	unpricedSet map[string]bool
}

func (x *Exec) eligible(c *types.RequestContext, post *Snap) eligibility {
	e := eligibility{must: map[string]bool{}, may: map[string]bool{}, unpricedSet: map[string]bool{}}
	capv := coinsStake(c.ServiceFeeCap)
	for _, p := range c.Providers {
		b, ok := post.Bindings[bkey(c.ServiceName, p)]
		if !ok || !b.Available || b.QoS > uint64(c.Timeout) {
			continue
		}
		hp, err := ParseHPricing(b.Pricing)
		if err != nil {
			continue
		}
		fees := hp.AcceptableFees(post.Time, x.tr.Vol[volKey(c.Consumer, c.ServiceName, p)], post.Rates)
		if fees == nil {
			e.unpriced = true
			e.unpricedSet[hx(p)] = true
			continue
		}
		if hp.Foreign() {
			x.stats.inc("probe_foreign_priced_candidate")
		}
		all, some := true, false
		var lo, hi int64 = -1, -1
		for f := range fees {
			v, _ := parseI64(f)
			if v <= capv {
				some = true
				if lo < 0 || v < lo {
					lo = v
				}
				if v > hi {
					hi = v
				}
			} else {
				all = false
			}
		}
		if some {
			e.may[hx(p)] = true
			if all {
				e.must[hx(p)] = true
				e.minTotal += lo
			}
			e.maxTotal += hi
		}
	}
	return e
}

func parseI64(s string) (int64, bool) {
	var v int64
	_, err := fmt.Sscan(s, &v)
	return v, err == nil
}

// termsApplied: a successful call / context update takes effect — the terms the consumer named are the terms in
// force afterwards (C06 speaks of "the cap in force", "the providers named in the context", "the context's timeout").
func termsApplied(x *Exec, r *StepRec) {
	if r.Kind == "msg" && (r.Msg.T == "bind" || r.Msg.T == "update") && r.Msg.QoS != 0 {
		// the committed response time is the one the owner's successful message named
		if b, ok := r.Post.Bindings[bkey(r.Msg.Svc, resolveAddr(r.Msg.Prov))]; ok && b.QoS != r.Msg.QoS {
			x.viol("C06", "terms_not_applied", fmt.Sprintf("height %d: %s succeeded but the binding's committed response time is %d, not %d", r.Post.Height, r.Msg.T, b.QoS, r.Msg.QoS), map[string]string{"msg": r.Msg.T, "field": "qos"})
			return
		}
	}
	if r.Kind != "msg" || (r.Msg.T != "updctx" && r.Msg.T != "call") {
		return
	}
	m := r.Msg
	var id string
	if m.T == "updctx" {
		id = x.namedCtx(r)
	} else {
		if x.cfg.ModuleService && m.Svc == types.OraclePriceServiceName {
			return
		}
		for _, cid := range r.Post.CtxIDs() {
			if _, old := r.Pre.Ctx[cid]; !old {
				id = cid
			}
		}
	}
	qc, ok := r.Post.Ctx[id]
	if !ok {
		return
	}
	bad := func(what string) {
		x.viol("C06", "terms_not_applied", fmt.Sprintf("height %d: %s by %s succeeded but the context's %s is not the one named in the message", r.Post.Height, m.T, r.Tx.Sender, what), map[string]string{"msg": m.T, "field": what})
	}
	if len(m.Providers) > 0 {
		want := resolveAddrs(m.Providers)
		same := len(want) == len(qc.Providers)
		for i := 0; same && i < len(want); i++ {
			same = bytes.Equal(want[i], qc.Providers[i])
		}
		if !same {
			bad("provider list")
			return
		}
	}
	if c := parseCoins(m.FeeCap); !c.Empty() && !c.IsEqual(qc.ServiceFeeCap) {
		bad("fee cap")
		return
	}
	if m.Timeout > 0 && qc.Timeout != m.Timeout {
		bad("timeout")
		return
	}
	if m.T == "updctx" {
		if m.Freq > 0 && qc.RepeatedFrequency != m.Freq {
			bad("frequency")
			return
		}
		if m.Total != 0 && qc.RepeatedTotal != m.Total {
			bad("total")
			return
		}
	}
}

func oracleC06(x *Exec, r *StepRec) {
	termsApplied(x, r)
	if r.Kind != "end" {
		return
	}
	pre, post := r.Pre, r.Post
	newReqs := newRequestsByCtx(pre, post)
	for _, id := range pre.CtxIDs() {
		pc := pre.Ctx[id]
		qc, ok := post.Ctx[id]
		if !ok {
			continue
		}
		bumped := qc.BatchCounter == pc.BatchCounter+1
		paused := pc.State == types.RUNNING && qc.State == types.PAUSED
		reqs := newReqs[id]
		if !bumped && !paused && len(reqs) == 0 {
			continue
		}
		e := x.eligible(pc, post)
		if e.unpriced {
			// a candidate cannot be priced (no usable exchange rate). The statement does not say whether the whole batch
			// waits or the priceable providers are served; what it does say still holds: "exactly those providers" —
			// every provider that is eligible on its own merits is treated alike, and nobody ineligible gets a request
			x.stats.inc("probe_unpriced_batch")
			if len(newReqs[id]) > 0 {
				got := map[string]bool{}
				for _, rid := range newReqs[id] {
					got[hx(post.Req[rid].Provider)] = true
				}
				origin := map[string]string{"context_origin": x.ctxOrigin(id), "exchange_rate": "unavailable"}
				for _, p := range sortedKeys(e.must) {
					if !got[p] {
						x.viol("C06", "issued_set", fmt.Sprintf("height %d: context %s: a batch was issued while a candidate could not be priced, but eligible provider %s got no request although others did", post.Height, id[:12], p), origin)
						return
					}
				}
				for _, p := range sortedKeys(got) {
					if !e.may[p] && !e.unpricedSet[p] {
						x.viol("C06", "issued_set", fmt.Sprintf("height %d: context %s: request issued to ineligible provider %s (%s)", post.Height, id[:12], p, whyIneligible(pc, post, p)), origin)
						return
					}
				}
			}
			continue
		}
		thr := int(pc.ResponseThreshold)
		if ci := x.tr.Ctxs[id]; ci != nil && ci.HasThreshold {
			thr = int(ci.Threshold) // what the owning module last set successfully (ledger)
		}
		if thr < 1 {
			thr = 1
		}
		capv := coinsStake(pc.ServiceFeeCap)
		origin := map[string]string{"context_origin": x.ctxOrigin(id)}
		switch {
		case len(reqs) > 0:
			if paused {
				x.viol("C06", "paused_with_requests", fmt.Sprintf("height %d: context %s was paused for lack of funds but %d request(s) were issued", post.Height, id[:12], len(reqs)), origin)
				return
			}
			got := map[string]bool{}
			for _, rid := range reqs {
				q := post.Req[rid]
				got[hx(q.Provider)] = true
				if fee := coinsStake(q.ServiceFee); fee > capv {
					x.viol("C06", "fee_above_cap", fmt.Sprintf("height %d: request %s fee %d above cap %d", post.Height, rid[:12], fee, capv), origin)
					return
				}
			}
			for p := range e.must {
				if !got[p] {
					x.viol("C06", "issued_set", fmt.Sprintf("height %d: context %s: eligible provider %s got no request", post.Height, id[:12], p), origin)
					return
				}
			}
			for _, p := range sortedKeys(got) {
				if !e.may[p] {
					x.viol("C06", "issued_set", fmt.Sprintf("height %d: context %s: request issued to ineligible provider %s (%s)", post.Height, id[:12], p, whyIneligible(pc, post, p)), origin)
					return
				}
			}
			if len(got) != len(reqs) {
				x.viol("C06", "issued_set", "two requests to one provider in a batch", origin)
				return
			}
			if len(reqs) < thr {
				x.viol("C06", "skip_expected", fmt.Sprintf("height %d: context %s issued %d request(s), below the threshold %d", post.Height, id[:12], len(reqs), thr), origin)
				return
			}
			x.stats.inc("probe_batch_issued")
			if len(reqs) < len(pc.Providers) {
				x.stats.inc("probe_issued_subset")
			}
		case bumped:
			// skipped: legal only if the eligible set is empty or below the threshold
			if len(e.must) >= thr {
				x.viol("C06", "issue_expected", fmt.Sprintf("height %d: context %s skipped a batch although %d provider(s) were eligible (threshold %d)", post.Height, id[:12], len(e.must), thr), origin)
				return
			}
			x.stats.inc("probe_batch_skipped")
		case paused:
			if len(e.may) < thr {
				x.viol("C06", "skip_expected", fmt.Sprintf("height %d: context %s was paused for funds although the eligible set (%d) is below the threshold %d", post.Height, id[:12], len(e.may), thr), origin)
				return
			}
			if pc.SuperMode {
				x.viol("C06", "pause_unexpected", "a super-mode context was paused for lack of funds", origin)
				return
			}
			if len(e.must) >= thr && len(e.must) == len(e.may) && e.maxTotal <= post.BalOf(pc.Consumer) {
				x.viol("C06", "pause_unexpected", fmt.Sprintf("height %d: context %s paused for funds although its total %d was covered by the consumer's final balance %d", post.Height, id[:12], e.maxTotal, post.BalOf(pc.Consumer)), origin)
				return
			}
			x.stats.inc("probe_paused_for_funds")
		}
	}
}

func whyIneligible(c *types.RequestContext, post *Snap, p string) string {
	pb, _ := hexDecode(p)
	b, ok := post.Bindings[bkey(c.ServiceName, pb)]
	switch {
	case !ok:
		return "no binding"
	case !b.Available:
		return "binding unavailable"
	case b.QoS > uint64(c.Timeout):
		return fmt.Sprintf("qos %d > timeout %d", b.QoS, c.Timeout)
	}
	return fmt.Sprintf("price above cap %s (pricing %s)", c.ServiceFeeCap, b.Pricing)
}

func oracleC07(x *Exec, r *StepRec) {
	if r.Kind == "msg" && (r.Msg.T == "bind" || r.Msg.T == "update") && r.Msg.Pricing != "" {
		// the published pricing is what the owner's successful message named
		if b, ok := r.Post.Bindings[bkey(r.Msg.Svc, resolveAddr(r.Msg.Prov))]; ok && b.Pricing != r.Msg.Pricing {
			x.viol("C07", "pricing_not_published", fmt.Sprintf("height %d: %s succeeded but the binding still publishes %s, not %s", r.Post.Height, r.Msg.T, b.Pricing, r.Msg.Pricing), nil)
			return
		}
	}
	if r.Kind != "end" && !(r.Kind == "msg" && r.Msg.T == "call") {
		return
	}
	pre, post := r.Pre, r.Post
	if r.Kind == "msg" && x.cfg.ModuleService && r.Msg.Svc == types.OraclePriceServiceName {
		// a call to a module-reserved service issues (and settles) its request inside the step: what it costs the caller is
		// the fee of the request issued for it — nothing for a request that carries none (super mode), nothing net if the
		// module's answer was malformed and the fee came back
		var want int64
		n := 0
		for _, rid := range post.ReqIDs() {
			if _, old := pre.Req[rid]; old {
				continue
			}
			q := post.Req[rid]
			n++
			if _, answered := post.Resp[rid]; answered && servedOutputKind(r, rid) == "malformed" {
				continue
			}
			want -= coinsStake(q.ServiceFee)
		}
		if got := post.BalOf(r.Sender) - pre.BalOf(r.Sender); n > 0 && got != want {
			x.viol("C07", "charge_mismatch", fmt.Sprintf("height %d: the call to the module-reserved service moved the caller's balance by %d, the fee of the request issued for it says %d", post.Height, got, want), map[string]string{"context_origin": "modsvc"})
			return
		}
	}
	if r.Kind == "end" {
		// what each consumer is charged at batch start is the sum of the fees of the requests issued for it
		// (refunds of requests expiring in this block are added back)
		exp := map[string]int64{}
		h := post.Height
		for _, rid := range sortedBoolKeys(pre.Active15) {
			if q, ok := pre.Req[rid]; ok && q.ExpirationHeight == h {
				if c, ok := pre.Ctx[hx(q.RequestContextId)]; ok {
					exp[hx(c.Consumer)] += coinsStake(q.ServiceFee)
				}
			}
		}
		consumers := map[string]bool{}
		for _, rid := range post.ReqIDs() {
			if _, old := pre.Req[rid]; old {
				continue
			}
			q := post.Req[rid]
			if c, ok := post.Ctx[hx(q.RequestContextId)]; ok {
				exp[hx(c.Consumer)] -= coinsStake(q.ServiceFee)
				consumers[hx(c.Consumer)] = true
			}
		}
		for _, a := range sortedKeys(consumers) {
			if got := post.Bal[a] - pre.Bal[a]; got != exp[a] {
				x.viol("C07", "charge_mismatch", fmt.Sprintf("height %d: consumer %s balance moved by %d, the fees of the requests issued for it (net of refunds due in this block) say %d", h, addrName(a), got, exp[a]), nil)
				return
			}
		}
	}
	for _, rid := range post.ReqIDs() {
		if _, old := pre.Req[rid]; old {
			continue
		}
		q := post.Req[rid]
		cid := hx(q.RequestContextId)
		c, ok := post.Ctx[cid]
		if !ok {
			continue
		}
		origin := map[string]string{"context_origin": x.ctxOrigin(cid)}
		if c.SuperMode {
			if !q.ServiceFee.Empty() {
				x.viol("C07", "super_fee", fmt.Sprintf("super-mode request %s carries fee %s", rid[:12], q.ServiceFee), origin)
				return
			}
			x.stats.inc("probe_super_request")
			continue
		}
		b, ok := post.Bindings[bkey(c.ServiceName, q.Provider)]
		if !ok {
			continue
		}
		hp, err := ParseHPricing(b.Pricing)
		if err != nil {
			continue
		}
		if len(q.ServiceFee) != 1 || q.ServiceFee[0].Denom != "stake" {
			x.viol("C07", "fee_value", fmt.Sprintf("request %s fee %s is not one coin of the base denomination", rid[:12], q.ServiceFee), origin)
			return
		}
		fee := q.ServiceFee[0].Amount
		vol := x.tr.Vol[volKey(c.Consumer, c.ServiceName, q.Provider)]
		acc := hp.AcceptableFees(post.Time, vol, post.Rates)
		if acc == nil {
			continue // foreign pricing without a usable exchange rate: nothing to compare with
		}
		if !acc[fee.String()] {
			x.viol("C07", "fee_value", fmt.Sprintf("height %d time %s: request %s to %s fee %s; published pricing %s with volume %d allows %v", post.Height, post.Time.Format("15:04:05.000000000"), rid[:12], bkShow(bkey(c.ServiceName, q.Provider)), fee, b.Pricing, vol, sortedKeys(acc)), origin)
			return
		}
		base := hp.Base
		if hp.Foreign() {
			// in the base denomination: the base price at the published rate (rounded up: the bound is not a rounding rule)
			conv := new(big.Rat).Mul(new(big.Rat).SetInt(hp.Base), rateFor(post.Rates, hp.Denom))
			base = new(big.Int).Add(floorRat(conv), big.NewInt(1))
			x.stats.inc("probe_foreign_priced_request")
		}
		if base.Sign() < 1 {
			base = bigInt(1)
		}
		if fee.BigInt().Cmp(base) > 0 {
			x.viol("C07", "fee_above_base", fmt.Sprintf("fee %s above base price %s", fee, base), origin)
			return
		}
		x.stats.inc("probe_priced_request")
		if len(hp.ByTime) > 0 {
			for _, w := range hp.ByTime {
				switch {
				case post.Time.Equal(w.Start):
					x.stats.inc("probe_time_window_start")
				case post.Time.Equal(w.End):
					x.stats.inc("probe_time_window_end")
				case post.Time.After(w.Start) && post.Time.Before(w.End):
					x.stats.inc("probe_time_window_inside")
				}
			}
		}
		for _, v := range hp.ByVol {
			if vol == v.Volume {
				x.stats.inc("probe_volume_at_threshold")
			} else if vol > v.Volume {
				x.stats.inc("probe_volume_above_threshold")
			}
		}
		if hp.Base.Sign() == 0 {
			x.stats.inc("probe_zero_price")
		}
	}
}

// ---- C08 -------------------------------------------------------------------------------------------

func oracleC08(x *Exec, r *StepRec) {
	pre, post := r.Pre, r.Post
	switch {
	case (r.Kind == "msg" || r.Kind == "msgfail") && r.Msg.T == "respond":
		m := r.SdkMsg.(*types.MsgRespondService)
		rid := hx(m.RequestId)
		q, have := pre.Req[rid]
		active := pre.Active15[rid]
		var ctxOK, byProvider bool
		if have {
			_, ctxOK = pre.Ctx[hx(q.RequestContextId)]
			byProvider = bytes.Equal(m.Provider, q.Provider)
		}
		legit := have && active && ctxOK && byProvider
		attrs := map[string]string{}
		if have {
			attrs["context_origin"] = x.ctxOrigin(hx(q.RequestContextId))
		}
		if r.Kind == "msg" {
			if !legit {
				why := "unknown request"
				switch {
				case have && !active:
					why = fmt.Sprintf("request no longer pending (expiry %d, height %d)", q.ExpirationHeight, pre.Height)
				case have && !byProvider:
					why = "signer is not the designated provider"
				}
				x.viol("C08", "accepted_wrongly", fmt.Sprintf("height %d: response to %s accepted: %s", pre.Height, rid[:12], why), attrs)
				return
			}
			if post.Active15[rid] {
				x.viol("C08", "still_pending_after_response", fmt.Sprintf("request %s still pending after an accepted response", rid[:12]), attrs)
				return
			}
			if _, ok := post.Resp[rid]; !ok {
				x.viol("C08", "response_not_recorded", fmt.Sprintf("accepted response to %s left no response record", rid[:12]), attrs)
				return
			}
			x.stats.inc("probe_response_accepted")
			if pre.Height == q.ExpirationHeight {
				x.stats.inc("probe_response_at_expiry_height")
			}
		} else if r.Res.Code == "error" || r.Res.Code == "panic" {
			// (a handler that panics on the message refuses it just the same; out-of-gas is the injected fault, not a refusal)
			if legit {
				x.viol("C08", "refused_wrongly", fmt.Sprintf("height %d: in-time response of the designated provider to pending request %s (expiry %d) refused: %s", pre.Height, rid[:12], q.ExpirationHeight, r.Res.Err), attrs)
				return
			}
			switch {
			case !have:
				x.stats.inc("probe_response_refused_unknown")
			case !active:
				x.stats.inc("probe_response_refused_not_pending")
			case !byProvider:
				x.stats.inc("probe_response_refused_stranger")
			}
		}
	case r.Kind == "end":
		h := post.Height
		for _, rid := range sortedBoolKeys(post.Active15) {
			if q, ok := post.Req[rid]; ok && q.ExpirationHeight <= h {
				x.viol("C08", "marker_after_expiry", fmt.Sprintf("request %s (expiry %d) still pending after block %d ended", rid[:12], q.ExpirationHeight, h), map[string]string{"context_origin": x.ctxOrigin(hx(q.RequestContextId))})
				return
			}
		}
		for _, a := range post.Active14 {
			if a.Expiry <= h {
				x.viol("C08", "marker_after_expiry", fmt.Sprintf("binding-index marker of request %s (expiry %d) still present after block %d ended", a.ReqID[:12], a.Expiry, h), nil)
				return
			}
		}
		// a pending request may leave the pending set in EndBlock only at its own expiry height
		for _, rid := range sortedBoolKeys(pre.Active15) {
			if post.Active15[rid] {
				continue
			}
			if q, ok := pre.Req[rid]; ok && q.ExpirationHeight != h {
				x.viol("C08", "expired_early", fmt.Sprintf("request %s (expiry %d) stopped being pending at the end of block %d", rid[:12], q.ExpirationHeight, h), map[string]string{"context_origin": x.ctxOrigin(hx(q.RequestContextId))})
				return
			}
		}
		// issue: expiry = issue height + timeout
		for cid, rids := range newRequestsByCtx(pre, post) {
			c, ok := post.Ctx[cid]
			if !ok {
				continue
			}
			for _, rid := range rids {
				q := post.Req[rid]
				if q.RequestHeight != h || q.ExpirationHeight != h+c.Timeout {
					x.viol("C08", "expiry_height", fmt.Sprintf("request %s issued at %d with timeout %d: request height %d, expiration %d", rid[:12], h, c.Timeout, q.RequestHeight, q.ExpirationHeight), nil)
					return
				}
				if !post.Active15[rid] {
					x.viol("C08", "issued_not_pending", fmt.Sprintf("request %s issued but not pending", rid[:12]), nil)
					return
				}
			}
		}
	case r.Kind == "msg" || r.Kind == "mod" || r.Kind == "begin":
		// nothing but a response (or a module-service call) may take a request out of the pending set inside a block
		if r.Kind == "msg" && r.Msg.T == "call" {
			return
		}
		for _, rid := range sortedBoolKeys(pre.Active15) {
			if !post.Active15[rid] {
				x.viol("C08", "expired_early", fmt.Sprintf("request %s stopped being pending in %s", rid[:12], describeStep(r)), nil)
				return
			}
		}
	}
}

// ---- C09 -------------------------------------------------------------------------------------------

func oracleC09(x *Exec, r *StepRec) {
	if r.Kind == "msgfail" || r.Kind == "modfail" || r.Kind == "commit" {
		return
	}
	pre, post := r.Pre, r.Post
	named := x.namedCtx(r)
	verb := stepVerb(r)
	newReqs := newRequestsByCtx(pre, post)
	if named != "" && (verb == "pause" || verb == "start" || verb == "kill" || verb == "updctx") {
		pc, ok := pre.Ctx[named]
		attrs := map[string]string{"op": verb}
		switch {
		case !ok:
			x.viol("C09", "illegal_transition", fmt.Sprintf("%s of an unknown context succeeded", verb), attrs)
			return
		case verb == "pause" && !(pc.Repeated && pc.State == types.RUNNING):
			x.viol("C09", "illegal_transition", fmt.Sprintf("pause succeeded on a context that is repeated=%v state=%s", pc.Repeated, pc.State), attrs)
			return
		case verb == "start" && pc.State != types.PAUSED:
			x.viol("C09", "illegal_transition", fmt.Sprintf("start succeeded on a context in state %s", pc.State), attrs)
			return
		case verb == "kill" && !pc.Repeated:
			x.viol("C09", "illegal_transition", "kill succeeded on a one-shot context", attrs)
			return
		case verb == "updctx" && pc.State == types.COMPLETED:
			x.viol("C09", "illegal_transition", "update succeeded on a completed context", attrs)
			return
		}
		x.stats.inc("probe_ctx_" + verb + "_ok")
	}
	if r.Kind == "end" {
		// a running context whose batch is due in this block gets that batch counted (issued or skipped), unless
		// the consumer could not pay and it was paused
		h := post.Height
		for _, id := range pre.CtxIDs() {
			pc := pre.Ctx[id]
			if nh, due := pre.NewH[id]; !due || nh != h || pc.State != types.RUNNING || x.ctxOrigin(id) == "modsvc" {
				continue
			}
			qc, ok := post.Ctx[id]
			if !ok {
				continue
			}
			if qc.BatchCounter == pc.BatchCounter && qc.State == types.RUNNING {
				x.viol("C09", "due_batch_not_counted", fmt.Sprintf("height %d: running context %s had a batch due; it was neither counted (batch counter stays %d) nor paused", h, id[:12], pc.BatchCounter), map[string]string{"context_origin": x.ctxOrigin(id)})
				return
			}
		}
	}
	for _, id := range pre.CtxIDs() {
		pc := pre.Ctx[id]
		qc, ok := post.Ctx[id]
		origin := map[string]string{"context_origin": x.ctxOrigin(id)}
		if !ok {
			// when exactly a finished context's record is removed is C16's business; but only a finished context may
			// go: a one-shot that had its batch, a repeated one whose total is reached, or a killed one
			finished := (!pc.Repeated && pc.BatchCounter >= 1) || pc.State == types.COMPLETED ||
				(pc.Repeated && pc.RepeatedTotal > 0 && int64(pc.BatchCounter) >= pc.RepeatedTotal)
			if !finished && origin["context_origin"] != "modsvc" && r.Kind != "export" {
				x.viol("C09", "removed_while_unfinished", fmt.Sprintf("%s at height %d: context %s removed in state %s with batch %d of total %d (repeated=%v): neither finished nor killed", describeStep(r), post.Height, id[:12], pc.State, pc.BatchCounter, pc.RepeatedTotal, pc.Repeated), origin)
				return
			}
			continue
		}
		if ctxImmutableChanged(pc, qc) {
			x.viol("C09", "immutable_changed", fmt.Sprintf("%s changed an immutable field of context %s", describeStep(r), id[:12]), origin)
			return
		}
		if pc.State != qc.State {
			ok := false
			switch {
			case pc.State == types.COMPLETED:
				ok = false
			case r.Kind == "export" && qc.State == types.PAUSED:
				ok = true // a zero-height export leaves every context paused, by design
			case pc.State == types.RUNNING && qc.State == types.PAUSED:
				ok = (verb == "pause" && named == id) ||
					(r.Kind == "end" && qc.BatchCounter == pc.BatchCounter && len(newReqs[id]) == 0)
			case pc.State == types.PAUSED && qc.State == types.RUNNING:
				ok = verb == "start" && named == id
			case qc.State == types.COMPLETED:
				ok = verb == "kill" && named == id
			}
			if !ok {
				origin["from"] = pc.State.String()
				origin["to"] = qc.State.String()
				x.viol("C09", "illegal_transition", fmt.Sprintf("%s at height %d: context %s went %s -> %s (batch counter %d -> %d, new requests %d)", describeStep(r), post.Height, id[:12], pc.State, qc.State, pc.BatchCounter, qc.BatchCounter, len(newReqs[id])), origin)
				return
			}
		}
		if qc.BatchCounter != pc.BatchCounter {
			switch {
			case qc.BatchCounter != pc.BatchCounter+1:
				x.viol("C09", "counter_step", fmt.Sprintf("batch counter of %s went %d -> %d", id[:12], pc.BatchCounter, qc.BatchCounter), origin)
				return
			case r.Kind != "end":
				x.viol("C09", "counter_step", fmt.Sprintf("batch counter of %s changed in %s", id[:12], describeStep(r)), origin)
				return
			case pc.State != types.RUNNING:
				x.viol("C09", "batch_while_not_running", fmt.Sprintf("height %d: a batch was issued/skipped for context %s in state %s", post.Height, id[:12], pc.State), origin)
				return
			case qc.State != types.RUNNING:
				x.viol("C09", "batch_while_not_running", fmt.Sprintf("height %d: context %s got batch %d and ended the block in state %s", post.Height, id[:12], qc.BatchCounter, qc.State), origin)
				return
			}
		} else if len(newReqs[id]) > 0 {
			x.viol("C09", "counter_step", fmt.Sprintf("requests issued for %s without advancing the batch counter", id[:12]), origin)
			return
		}
	}
}

func ctxImmutableChanged(pc, qc *types.RequestContext) bool {
	return pc.ServiceName != qc.ServiceName || !bytes.Equal(pc.Consumer, qc.Consumer) || pc.Input != qc.Input ||
		pc.SuperMode != qc.SuperMode || pc.Repeated != qc.Repeated || pc.ModuleName != qc.ModuleName
}

// ---- C10 -------------------------------------------------------------------------------------------

func oracleC10(x *Exec, r *StepRec) {
	if r.Kind == "msgfail" || r.Kind == "modfail" || r.Kind == "commit" || r.Kind == "begin" || r.Kind == "params" {
		return
	}
	pre, post := r.Pre, r.Post
	h := post.Height
	for _, id := range post.CtxIDs() {
		qc := post.Ctx[id]
		ci := x.tr.Ctxs[id]
		pc, existed := pre.Ctx[id]
		attrs := map[string]string{"context_origin": x.ctxOrigin(id)}
		if !existed {
			if r.Kind == "msg" && x.cfg.ModuleService && r.Msg.Svc == types.OraclePriceServiceName {
				attrs["context_origin"] = "modsvc"
			}
			if !qc.Repeated && qc.BatchCounter > 1 {
				x.viol("C10", "one_shot_repeat", "one-shot context created with more than one batch", attrs)
				return
			}
			continue
		}
		if ci == nil {
			continue
		}
		if !qc.Repeated && qc.BatchCounter > 1 {
			x.viol("C10", "one_shot_repeat", fmt.Sprintf("height %d: one-shot context %s reached batch %d", h, id[:12], qc.BatchCounter), attrs)
			return
		}
		maxTotal := maxI64(ci.MaxTotal, maxI64(pc.RepeatedTotal, qc.RepeatedTotal))
		unlimited := ci.EverUnlimited || pc.RepeatedTotal < 0 || qc.RepeatedTotal < 0
		if qc.Repeated && !unlimited && maxTotal > 0 && int64(qc.BatchCounter) > maxTotal {
			if ci.FinalExpiredWhilePaused {
				attrs["path"] = "started_after_final_batch_expired_while_paused"
			}
			x.viol("C10", "total_exceeded", fmt.Sprintf("height %d: repeated context %s reached batch %d, above the largest total ever in force (%d)", h, id[:12], qc.BatchCounter, maxTotal), attrs)
			return
		}
		if qc.BatchCounter == pc.BatchCounter {
			continue
		}
		// a batch started in this step
		if eh, ok := pre.ExpH[id]; ok && eh > h {
			x.viol("C10", "overlap", fmt.Sprintf("height %d: batch %d of context %s started while the previous batch expires only at %d", h, qc.BatchCounter, id[:12], eh), attrs)
			return
		}
		if n := len(ci.Batches); n > 0 && r.Kind == "end" {
			prev := ci.Batches[n-1]
			quiet := true
			for _, ev := range ci.Events {
				if ev.H > prev.StartH && ev.H <= h {
					quiet = false
				}
			}
			// "unchanged timeout and frequency": by the instructions the harness saw succeed (ledger) where it has
			// them, by the stored fields otherwise (genesis and re-imported contexts)
			same := prev.Freq == qc.RepeatedFrequency && prev.Timeout == qc.Timeout
			freq := prev.Freq
			if prev.HasTF && ci.HasTF {
				same = prev.LFreq == ci.LFreq && prev.LTimeout == ci.LTimeout
				freq = ci.LFreq
			}
			if quiet && same && freq < 1<<62 {
				if uint64(h-prev.StartH) != freq {
					x.viol("C10", "cadence", fmt.Sprintf("context %s (frequency %d in force, unchanged since the previous batch): batch %d started at %d, batch %d at %d", id[:12], freq, prev.N, prev.StartH, qc.BatchCounter, h), attrs)
					return
				}
				x.stats.inc("probe_cadence_checked")
				if prev.Freq == uint64(prev.Timeout) {
					x.stats.inc("probe_freq_eq_timeout")
				}
			}
		}
		if ci.FinalExpiredWhilePaused {
			x.stats.inc("probe_start_after_final_expired_paused")
		}
	}
	if r.Kind != "end" {
		return
	}
	// first batch at the end of the creating block, if still running then
	for _, id := range pre.CtxIDs() {
		ci := x.tr.Ctxs[id]
		pc := pre.Ctx[id]
		if ci == nil || ci.CreatedAt != h || !ci.CreatedRunning || pc.State != types.RUNNING || ci.Origin == "modsvc" || ci.Origin == "genesis" {
			continue
		}
		if pc.BatchCounter != 0 {
			continue
		}
		qc, ok := post.Ctx[id]
		if !ok {
			x.viol("C10", "first_batch_late", fmt.Sprintf("context %s vanished in the block that created it", id[:12]), nil)
			return
		}
		if qc.BatchCounter != 1 && qc.State != types.PAUSED {
			x.viol("C10", "first_batch_late", fmt.Sprintf("context %s created and running at height %d got no batch at the end of that block (counter %d, state %s)", id[:12], h, qc.BatchCounter, qc.State), map[string]string{"context_origin": ci.Origin})
			return
		}
		x.stats.inc("probe_first_batch_checked")
	}
}

// ---- C11 -------------------------------------------------------------------------------------------

func oracleC11(x *Exec, r *StepRec) {
	if r.Kind == "msgfail" || r.Kind == "modfail" {
		return
	}
	s := r.Post
	h := s.Height
	after := r.Kind == "end" || r.Kind == "commit"
	checkQ := func(kind string, q []QEntry, ptr map[string]int64) bool {
		seen := map[string]int{}
		for _, e := range q {
			attrs := map[string]string{"queue": kind}
			if ci := x.tr.Ctxs[e.ID]; ci != nil {
				attrs["context_origin"] = ci.Origin
				if ci.HugeFreq {
					attrs["frequency"] = "ge_2^62"
				}
			}
			if c, ok := s.Ctx[e.ID]; ok && c.RepeatedFrequency >= 1<<62 {
				attrs["frequency"] = "ge_2^62"
			}
			if _, ok := s.Ctx[e.ID]; !ok {
				x.viol("C11", "queue_dangling", fmt.Sprintf("after %s at height %d: %s-queue entry at %d refers to a missing context %s", describeStep(r), h, kind, e.H, e.ID[:12]), attrs)
				return false
			}
			if p, ok := ptr[e.ID]; !ok || p != e.H {
				x.viol("C11", "queue_dangling", fmt.Sprintf("%s-queue entry (%d,%s) has no matching height record", kind, e.H, e.ID[:12]), attrs)
				return false
			}
			seen[e.ID]++
			if seen[e.ID] > 1 {
				x.viol("C11", "queue_duplicate", fmt.Sprintf("context %s has two %s events", e.ID[:12], kind), attrs)
				return false
			}
			if e.H < h || (after && e.H <= h) {
				x.viol("C11", "queue_past", fmt.Sprintf("after %s at height %d: %s event of context %s scheduled at %d lies in the past", describeStep(r), h, kind, e.ID[:12], e.H), attrs)
				return false
			}
		}
		for _, id := range sortedI64Keys(ptr) {
			if seen[id] == 0 {
				x.viol("C11", "queue_dangling", fmt.Sprintf("%s height record of %s has no queue entry", kind, id[:12]), nil)
				return false
			}
		}
		return true
	}
	if !checkQ("expiry", s.ExpQ, s.ExpH) || !checkQ("new-batch", s.NewQ, s.NewH) {
		return
	}
	for _, id := range s.CtxIDs() {
		c := s.Ctx[id]
		if c.State != types.RUNNING {
			continue
		}
		_, e := s.ExpH[id]
		_, n := s.NewH[id]
		attrs := map[string]string{"context_origin": x.ctxOrigin(id)}
		if !e && !n {
			x.viol("C11", "running_without_event", fmt.Sprintf("after %s at height %d: running context %s has no scheduled event", describeStep(r), h, id[:12]), attrs)
			return
		}
		if e && n {
			x.viol("C11", "running_with_two_events", fmt.Sprintf("after %s at height %d: running context %s has both a new-batch and an expiry event", describeStep(r), h, id[:12]), attrs)
			return
		}
	}
	for _, rid := range sortedBoolKeys(s.Active15) {
		q, ok := s.Req[rid]
		if !ok {
			x.viol("C11", "request_without_expiry", fmt.Sprintf("pending marker %s without request", rid[:12]), nil)
			return
		}
		cid := hx(q.RequestContextId)
		c, ok := s.Ctx[cid]
		attrs := map[string]string{"context_origin": x.ctxOrigin(cid)}
		switch {
		case !ok:
			x.viol("C11", "request_without_expiry", fmt.Sprintf("pending request %s belongs to a missing context", rid[:12]), attrs)
			return
		case q.RequestContextBatchCounter != c.BatchCounter:
			x.viol("C11", "request_without_expiry", fmt.Sprintf("pending request %s belongs to batch %d, current batch is %d", rid[:12], q.RequestContextBatchCounter, c.BatchCounter), attrs)
			return
		case s.ExpH[cid] != q.ExpirationHeight:
			x.viol("C11", "request_without_expiry", fmt.Sprintf("after %s at height %d: pending request %s expires at %d but its context's expiry event is at %d", describeStep(r), h, rid[:12], q.ExpirationHeight, s.ExpH[cid]), attrs)
			return
		}
	}
}

func sortedI64Keys(m map[string]int64) []string {
	out := make([]string, 0, len(m))
	for k := range m {
		out = append(out, k)
	}
	sort.Strings(out)
	return out
}

func finishC11(x *Exec) {
	s := x.cur
	for _, rid := range sortedBoolKeys(s.Active15) {
		if q, ok := s.Req[rid]; ok && q.ExpirationHeight <= s.Height {
			x.viol("C11", "not_drained", fmt.Sprintf("request %s (expiry %d) still pending at height %d after the drain", rid[:12], q.ExpirationHeight, s.Height), nil)
			return
		}
	}
}

// ---- C12 -------------------------------------------------------------------------------------------

func batchRecords(s *Snap, cid string, batch uint64) (reqs, resps []string) {
	for _, rid := range s.ReqIDs() {
		q := s.Req[rid]
		if hx(q.RequestContextId) == cid && q.RequestContextBatchCounter == batch {
			reqs = append(reqs, rid)
		}
	}
	rids := make([]string, 0, len(s.Resp))
	for rid := range s.Resp {
		rids = append(rids, rid)
	}
	sort.Strings(rids)
	for _, rid := range rids {
		p := s.Resp[rid]
		if hx(p.RequestContextId) == cid && p.RequestContextBatchCounter == batch {
			resps = append(resps, rid)
		}
	}
	return
}

func oracleC12(x *Exec, r *StepRec) {
	if r.Kind == "msgfail" || r.Kind == "modfail" || r.Kind == "commit" || r.Kind == "export" {
		return
	}
	pre, post := r.Pre, r.Post
	h := post.Height
	cbByCtx := map[string][]CallbackRec{}
	for _, cb := range r.Callbacks {
		cbByCtx[cb.Ctx] = append(cbByCtx[cb.Ctx], cb)
	}
	ids := map[string]bool{}
	for id := range pre.Ctx {
		ids[id] = true
	}
	for id := range post.Ctx {
		ids[id] = true
	}
	for _, id := range sortedKeys(ids) {
		pc, inPre := pre.Ctx[id]
		qc, inPost := post.Ctx[id]
		attrs := map[string]string{"context_origin": x.ctxOrigin(id)}
		if !inPre && inPost && r.Kind == "msg" && x.cfg.ModuleService && r.Msg.Svc == types.OraclePriceServiceName {
			attrs["context_origin"] = "modsvc"
		}
		// counts (while the batch's records exist: i.e. while its expiry is still pending, or it was just issued)
		if inPost {
			_, pending := post.ExpH[id]
			if pending || qc.BatchState == types.BATCHRUNNING {
				reqs, resps := batchRecords(post, id, qc.BatchCounter)
				if int(qc.BatchRequestCount) != len(reqs) {
					x.viol("C12", "request_count", fmt.Sprintf("after %s at height %d: context %s batch %d records %d requests, %d issued", describeStep(r), h, id[:12], qc.BatchCounter, qc.BatchRequestCount, len(reqs)), attrs)
					return
				}
				if int(qc.BatchResponseCount) != len(resps) {
					x.viol("C12", "response_count", fmt.Sprintf("after %s at height %d: context %s batch %d records %d responses, %d accepted", describeStep(r), h, id[:12], qc.BatchCounter, qc.BatchResponseCount, len(resps)), attrs)
					return
				}
				allAnswered := len(reqs) >= 1 && len(resps) == len(reqs)
				if allAnswered && qc.BatchState != types.BATCHCOMPLETED {
					x.viol("C12", "completed_late", fmt.Sprintf("context %s batch %d: all %d requests answered but batch not completed", id[:12], qc.BatchCounter, len(reqs)), attrs)
					return
				}
				if pending && !allAnswered && qc.BatchState == types.BATCHCOMPLETED {
					x.viol("C12", "completed_early", fmt.Sprintf("after %s at height %d: context %s batch %d completed with %d/%d responses before its expiry", describeStep(r), h, id[:12], qc.BatchCounter, len(resps), len(reqs)), attrs)
					return
				}
			}
			if inPre {
				if eh, had := pre.ExpH[id]; had && eh == h && r.Kind == "end" && qc.BatchCounter == pc.BatchCounter && qc.BatchState != types.BATCHCOMPLETED {
					x.viol("C12", "completed_late", fmt.Sprintf("context %s batch %d not completed although its expiry block %d ended", id[:12], qc.BatchCounter, h), attrs)
					return
				}
			}
		}
		// callbacks of the foreign module
		var mod string
		if inPre {
			mod = pc.ModuleName
		} else {
			mod = qc.ModuleName
		}
		cbs := cbByCtx[id]
		if mod != foreignModule {
			if len(cbs) > 0 {
				x.viol("C12", "callback_count", fmt.Sprintf("callback invoked for context %s which does not belong to the module", id[:12]), attrs)
				return
			}
			continue
		}
		if !inPre {
			if len(cbs) > 0 {
				x.viol("C12", "callback_count", "callback at creation", attrs)
				return
			}
			continue
		}
		// did the current batch (pc's) complete in this step?
		completed := false
		batch := pc.BatchCounter
		if pc.BatchState == types.BATCHRUNNING {
			switch {
			case !inPost:
				completed = true
			case qc.BatchCounter != pc.BatchCounter:
				completed = true
			case qc.BatchState == types.BATCHCOMPLETED:
				completed = true
			}
		}
		// a batch that was issued or skipped and completed inside the same EndBlock cannot happen (timeout >= 1)
		var respCbs, stateCbs []CallbackRec
		for _, cb := range cbs {
			if cb.Kind == "resp" {
				respCbs = append(respCbs, cb)
			} else {
				stateCbs = append(stateCbs, cb)
			}
		}
		wantResp := 0
		if completed {
			wantResp = 1
		}
		if len(respCbs) != wantResp {
			x.viol("C12", "callback_count", fmt.Sprintf("%s at height %d: context %s batch %d (completed in this step: %v) got %d response callback(s)", describeStep(r), h, id[:12], batch, completed, len(respCbs)), attrs)
			return
		}
		if completed {
			// outputs = non-empty outputs of the batch's responses (pre state + the response accepted in this step)
			var want []string
			src := pre
			if r.Kind == "msg" && r.Msg.T == "respond" {
				src = post
			}
			_, resps := batchRecords(src, id, batch)
			for _, rid := range resps {
				if o := src.Resp[rid].Output; o != "" {
					want = append(want, o)
				}
			}
			got := append([]string{}, respCbs[0].Outputs...)
			sort.Strings(want)
			sort.Strings(got)
			if fmt.Sprint(want) != fmt.Sprint(got) {
				x.viol("C12", "callback_outputs", fmt.Sprintf("context %s batch %d: callback outputs %v, responses' outputs %v", id[:12], batch, got, want), attrs)
				return
			}
			thr := int(pc.BatchResponseThreshold)
			if ci := x.tr.Ctxs[id]; ci != nil {
				// the threshold the owning module asked for when this batch started (ledger), not the stored copy
				for _, b := range ci.Batches {
					if b.N == batch && b.HasThreshold {
						thr = int(b.Threshold)
					}
				}
			}
			wantErr := len(want) < thr
			if respCbs[0].HasErr != wantErr {
				x.viol("C12", "callback_error", fmt.Sprintf("context %s batch %d: %d output(s), threshold %d, callback error=%v", id[:12], batch, len(want), thr, respCbs[0].HasErr), attrs)
				return
			}
			if wantErr {
				x.stats.inc("probe_callback_with_error")
			} else {
				x.stats.inc("probe_callback_without_error")
			}
			if pc.BatchRequestCount == 0 {
				x.stats.inc("probe_callback_on_skip")
			}
		}
		pausedForFunds := r.Kind == "end" && inPost && pc.State == types.RUNNING && qc.State == types.PAUSED
		wantState := 0
		if pausedForFunds {
			wantState = 1
		}
		if len(stateCbs) != wantState {
			x.viol("C12", "state_callback", fmt.Sprintf("%s at height %d: context %s paused for funds=%v, %d state callback(s)", describeStep(r), h, id[:12], pausedForFunds, len(stateCbs)), attrs)
			return
		}
		if pausedForFunds {
			x.stats.inc("probe_state_callback")
		}
	}
	for _, id := range sortedCbKeys(cbByCtx) {
		if !ids[id] {
			x.viol("C12", "callback_count", fmt.Sprintf("callback for unknown context %s", id), nil)
			return
		}
	}
}

func sortedCbKeys(m map[string][]CallbackRec) []string {
	out := make([]string, 0, len(m))
	for k := range m {
		out = append(out, k)
	}
	sort.Strings(out)
	return out
}

// ---- C16 -------------------------------------------------------------------------------------------

func oracleC16(x *Exec, r *StepRec) {
	if r.Kind == "msgfail" || r.Kind == "modfail" || r.Kind == "commit" {
		return
	}
	pre, post := r.Pre, r.Post
	h := post.Height
	if r.Kind == "end" {
		for _, id := range sortedI64Keys(pre.ExpH) {
			if pre.ExpH[id] != h {
				continue
			}
			pc, ok := pre.Ctx[id]
			if !ok {
				continue
			}
			attrs := map[string]string{"context_origin": x.ctxOrigin(id)}
			reqs, resps := batchRecords(post, id, pc.BatchCounter)
			if len(reqs) > 0 || len(resps) > 0 {
				x.viol("C16", "batch_left_behind", fmt.Sprintf("height %d: batch %d of context %s expired but %d request and %d response record(s) remain", h, pc.BatchCounter, id[:12], len(reqs), len(resps)), attrs)
				return
			}
			finished := ""
			switch {
			case !pc.Repeated:
				finished = "one-shot whose batch expired"
			case pc.State == types.COMPLETED:
				finished = "killed, in-flight batch expired"
			case pc.RepeatedTotal > 0 && int64(pc.BatchCounter) >= pc.RepeatedTotal:
				finished = "repeated, total reached"
			}
			if _, still := post.Ctx[id]; still && finished != "" {
				attrs["state"] = pc.State.String()
				attrs["finished"] = finished
				x.viol("C16", "finished_context_kept", fmt.Sprintf("height %d: context %s (%s; state %s, batch %d/%d) not removed when its batch expired", h, id[:12], finished, pc.State, pc.BatchCounter, pc.RepeatedTotal), attrs)
				return
			}
			if finished != "" {
				x.stats.inc("probe_finished_context_removed")
			}
			x.stats.inc("probe_batch_expired_cleaned")
		}
	}
	// no orphans, at all times
	for _, rid := range post.ReqIDs() {
		q := post.Req[rid]
		cid := hx(q.RequestContextId)
		c, ok := post.Ctx[cid]
		attrs := map[string]string{"context_origin": x.ctxOrigin(cid)}
		if r.Kind == "msg" && x.cfg.ModuleService && r.Msg.T == "call" && r.Msg.Svc == types.OraclePriceServiceName {
			attrs["context_origin"] = "modsvc"
		}
		if !ok {
			x.viol("C16", "orphan_request", fmt.Sprintf("after %s at height %d: request %s belongs to a missing context", describeStep(r), h, rid[:12]), attrs)
			return
		}
		if q.RequestContextBatchCounter != c.BatchCounter {
			x.viol("C16", "orphan_request", fmt.Sprintf("after %s at height %d: request %s of batch %d, context is at batch %d", describeStep(r), h, rid[:12], q.RequestContextBatchCounter, c.BatchCounter), attrs)
			return
		}
	}
	rids := make([]string, 0, len(post.Resp))
	for rid := range post.Resp {
		rids = append(rids, rid)
	}
	sort.Strings(rids)
	for _, rid := range rids {
		p := post.Resp[rid]
		q, ok := post.Req[rid]
		if !ok {
			x.viol("C16", "orphan_response", fmt.Sprintf("after %s: response %s without its request", describeStep(r), rid[:12]), map[string]string{"context_origin": x.ctxOrigin(hx(p.RequestContextId))})
			return
		}
		if !bytes.Equal(p.RequestContextId, q.RequestContextId) || p.RequestContextBatchCounter != q.RequestContextBatchCounter || !bytes.Equal(p.Provider, q.Provider) {
			x.viol("C16", "orphan_response", fmt.Sprintf("response %s disagrees with its request", rid[:12]), nil)
			return
		}
	}
	in14 := map[string]ActiveKey{}
	for _, a := range post.Active14 {
		if _, dup := in14[a.ReqID]; dup {
			x.viol("C16", "marker_index_mismatch", fmt.Sprintf("request %s twice in the by-binding index", a.ReqID[:12]), nil)
			return
		}
		in14[a.ReqID] = a
	}
	for _, rid := range sortedBoolKeys(post.Active15) {
		q, ok := post.Req[rid]
		if !ok {
			x.viol("C16", "orphan_marker", fmt.Sprintf("after %s: pending marker %s without its request", describeStep(r), rid[:12]), nil)
			return
		}
		a, ok := in14[rid]
		if !ok {
			x.viol("C16", "marker_index_mismatch", fmt.Sprintf("request %s pending by id but not in the by-binding index", rid[:12]), nil)
			return
		}
		c := post.Ctx[hx(q.RequestContextId)]
		if c != nil {
			if a.Svc != c.ServiceName || a.Prov != sdk.AccAddress(q.Provider).String() || a.Expiry != q.ExpirationHeight {
				x.viol("C16", "marker_index_mismatch", fmt.Sprintf("by-binding marker of %s disagrees with its request", rid[:12]), nil)
				return
			}
		}
	}
	for _, a := range post.Active14 {
		if !post.Active15[a.ReqID] {
			x.viol("C16", "marker_index_mismatch", fmt.Sprintf("after %s: request %s in the by-binding index but not pending by id", describeStep(r), a.ReqID[:12]), nil)
			return
		}
	}
}
