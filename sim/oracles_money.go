package main

// Oracles C01–C04, C13, C14: custody, settlement, deposits, slashing, earnings, minimum deposit.

import (
	"bytes"
	"fmt"
	"math/big"
	"sort"

	sdk "github.com/cosmos/cosmos-sdk/types"

	"github.com/irismod/service/types"
)

func init() {
	oracleTable["C01"] = oracleC01
	oracleTable["C02"] = oracleC02
	finishTable["C02"] = finishC02
	oracleTable["C03"] = oracleC03
	oracleTable["C04"] = oracleC04
	oracleTable["C13"] = oracleC13
	oracleTable["C14"] = oracleC14
}

func decRat(d sdk.Dec) *big.Rat {
	r, ok := new(big.Rat).SetString(d.String())
	if !ok {
		panic("bad dec " + d.String())
	}
	return r
}

func floorMul(v int64, f *big.Rat) int64 {
	p := new(big.Rat).Mul(new(big.Rat).SetInt64(v), f)
	return floorRat(p).Int64()
}

// ctxOrigin: attribute used by known-finding signatures.
func (x *Exec) ctxOrigin(ctxID string) string {
	if ci, ok := x.tr.Ctxs[ctxID]; ok {
		return ci.Origin
	}
	return "unknown"
}

func (x *Exec) anyModSvcCtx() bool {
	for _, ci := range x.tr.Ctxs {
		if ci.Origin == "modsvc" {
			return true
		}
	}
	return false
}

// ---- C01 ------------------------------------------------------------------------------------------

func oracleC01(x *Exec, r *StepRec) {
	if r.Kind == "msgfail" || r.Kind == "modfail" {
		return
	}
	s := r.Post
	var pending int64
	for _, rid := range sortedBoolKeys(s.Active15) {
		if q, ok := s.Req[rid]; ok {
			pending += coinsStake(q.ServiceFee)
		}
	}
	earned := s.EarnedTotal()
	bal := s.BalOf(requestAcc)
	if bal != pending+earned {
		attrs := map[string]string{}
		if x.anyModSvcCtx() {
			attrs["context_origin"] = "module_service_call_present"
		}
		x.viol("C01", "escrow_mismatch", fmt.Sprintf("after %s at height %d: escrow balance %d != pending fees %d + earnings %d", describeStep(r), s.Height, bal, pending, earned), attrs)
	}
}

func describeStep(r *StepRec) string {
	switch r.Kind {
	case "msg", "msgfail":
		return fmt.Sprintf("%s(%s by %s)", r.Kind, r.Msg.T, r.Tx.Sender)
	case "mod", "modfail":
		return fmt.Sprintf("%s(%s)", r.Kind, r.Mod.T)
	}
	return r.Kind
}

// ---- C02 ------------------------------------------------------------------------------------------

func balDeltas(pre, post *Snap) map[string]int64 {
	d := map[string]int64{}
	for a, v := range post.Bal {
		if dv := v - pre.Bal[a]; dv != 0 {
			d[a] = dv
		}
	}
	for a, v := range pre.Bal {
		if _, ok := post.Bal[a]; !ok && v != 0 {
			d[a] = -v
		}
	}
	return d
}

func earnedMap(s *Snap) map[string]int64 {
	m := map[string]int64{}
	for _, e := range s.Earned {
		m[hx(e.KeyRest)] += e.Coin.Amount.Int64()
	}
	return m
}

func diffMaps(exp, got map[string]int64, ignore map[string]bool) string {
	keys := map[string]bool{}
	for k := range exp {
		keys[k] = true
	}
	for k := range got {
		keys[k] = true
	}
	ks := sortedKeys(keys)
	for _, k := range ks {
		if ignore[k] {
			continue
		}
		if exp[k] != got[k] {
			return fmt.Sprintf("address %s (%s): expected delta %d, observed %d", k, addrName(k), exp[k], got[k])
		}
	}
	return ""
}

func addrName(hexAddr string) string {
	if n, ok := moduleAddrs[hexAddr]; ok {
		return n
	}
	for i := 0; i < 64; i++ {
		if hx(acctAddr(i)) == hexAddr {
			return acctRef(i)
		}
	}
	return "other"
}

func oracleC02(x *Exec, r *StepRec) {
	pre, post := r.Pre, r.Post
	ignore := map[string]bool{hx(depositAcc): true}
	exp := map[string]int64{}
	expEarned := earnedMap(pre)
	checkAll := true
	if r.Kind == "msgfail" && r.Msg.T == "respond" && r.Res.Code == "error" {
		// an in-time response of the designated provider to a pending paid request must settle it
		m := r.SdkMsg.(*types.MsgRespondService)
		rid := hx(m.RequestId)
		if q, ok := pre.Req[rid]; ok && pre.Active15[rid] && bytes.Equal(q.Provider, m.Provider) && coinsStake(q.ServiceFee) > 0 {
			if _, ok := pre.Ctx[hx(q.RequestContextId)]; ok {
				x.viol("C02", "response_refused", fmt.Sprintf("height %d: the designated provider's in-time response to paid request %s (expiry %d) was refused (%s): the fee cannot be settled to the provider", pre.Height, rid[:12], q.ExpirationHeight, r.Res.Err), map[string]string{"context_origin": x.ctxOrigin(hx(q.RequestContextId))})
			}
		}
		return
	}
	switch r.Kind {
	case "msgfail", "modfail", "commit", "params":
		return
	case "begin":
		// only the escrow and earnings must be untouched (mint / distribution move other module money)
		if post.BalOf(requestAcc) != pre.BalOf(requestAcc) {
			x.viol("C02", "escrow_moved", "escrow balance changed in BeginBlock", nil)
		}
		checkAll = false
	case "export":
		// zero-height export and restart: pending fees go back to the consumers, earnings to the providers
		exp = expectedZeroHeightRefunds(pre)
		expEarned = map[string]int64{}
		ignore[hx(feeCollAcc)] = true
		for a, n := range moduleAddrs {
			if n != types.RequestAccName && n != types.DepositAccName {
				ignore[a] = true // other modules' own zero-height preparation
			}
		}
	case "mod":
		// keeper API calls of the foreign module move no money
	case "end":
		h := post.Height
		for _, rid := range sortedBoolKeys(pre.Active15) {
			q, ok := pre.Req[rid]
			if !ok || q.ExpirationHeight != h {
				continue
			}
			fee := coinsStake(q.ServiceFee)
			if fee == 0 {
				continue
			}
			c, ok := pre.Ctx[hx(q.RequestContextId)]
			if !ok {
				continue
			}
			exp[hx(c.Consumer)] += fee
			exp[hx(requestAcc)] -= fee
		}
		for _, rid := range post.ReqIDs() {
			if _, old := pre.Req[rid]; old {
				continue
			}
			q := post.Req[rid]
			fee := coinsStake(q.ServiceFee)
			c, ok := post.Ctx[hx(q.RequestContextId)]
			if !ok || fee == 0 {
				continue
			}
			exp[hx(c.Consumer)] -= fee
			exp[hx(requestAcc)] += fee
		}
	case "msg":
		m := r.Msg
		switch m.T {
		case "respond":
			rid := hx(r.SdkMsg.(*types.MsgRespondService).RequestId)
			q, ok := pre.Req[rid]
			if !ok {
				return // C08's business
			}
			c, ok := pre.Ctx[hx(q.RequestContextId)]
			if !ok {
				return
			}
			fee := coinsStake(q.ServiceFee)
			if outputKind(m.Output) == "malformed" {
				exp[hx(c.Consumer)] += fee
				exp[hx(requestAcc)] -= fee
				x.stats.inc("probe_refund_bad_output")
			} else {
				tax := floorMul(fee, decRat(pre.Params.ServiceFeeTax))
				exp[hx(feeCollAcc)] += tax
				exp[hx(requestAcc)] -= tax
				expEarned[hx(q.Provider)+hx([]byte("stake"))] += fee - tax
				if fee-tax == 0 {
					// a zero earning may or may not leave a zero record; normalise below
				}
				if tax > 0 {
					x.stats.inc("probe_tax_positive")
				} else {
					x.stats.inc("probe_tax_zero")
				}
			}
		case "withdraw":
			// exact amounts are C13's; here: only escrow -> one recipient, same amount
			d := balDeltas(pre, post)
			out := -d[hx(requestAcc)]
			var in int64
			n := 0
			for a, v := range d {
				if a == hx(requestAcc) {
					continue
				}
				in += v
				n++
			}
			if out < 0 || in != out || n > 1 {
				x.viol("C02", "withdraw_flow", fmt.Sprintf("withdraw moved money other than escrow -> one recipient: deltas %v", d), nil)
			}
			return
		case "bind", "update", "enable":
			dep := coinsStake(parseCoins(m.Deposit))
			if dep > 0 {
				exp[hx(r.Sender)] -= dep
			}
		case "refund":
			bk := bkey(m.Svc, resolveAddr(m.Prov))
			if b, ok := pre.Bindings[bk]; ok {
				exp[hx(b.Owner)] += coinsStake(b.Deposit)
			}
		case "send":
			exp[hx(r.Sender)] -= m.Amount
			exp[hx(resolveAddr(m.To))] += m.Amount
		case "call":
			if x.cfg.ModuleService && m.Svc == types.OraclePriceServiceName {
				// a call to a module-reserved service is issued, paid for and answered within this one step: the consumer
				// pays exactly the fee of the request issued for it, and that fee is settled at once like any response
				for _, rid := range post.ReqIDs() {
					if _, old := pre.Req[rid]; old {
						continue
					}
					q := post.Req[rid]
					fee := coinsStake(q.ServiceFee)
					c, ok := post.Ctx[hx(q.RequestContextId)]
					if !ok || fee == 0 {
						continue
					}
					exp[hx(c.Consumer)] -= fee
					exp[hx(requestAcc)] += fee
					_, answered := post.Resp[rid]
					switch {
					case !answered:
						// (not answered inside the step: stays pending like an ordinary request)
					case servedOutputKind(r, rid) == "malformed":
						exp[hx(c.Consumer)] += fee
						exp[hx(requestAcc)] -= fee
					default:
						tax := floorMul(fee, decRat(pre.Params.ServiceFeeTax))
						exp[hx(feeCollAcc)] += tax
						exp[hx(requestAcc)] -= tax
						expEarned[hx(q.Provider)+hx([]byte("stake"))] += fee - tax
					}
					x.stats.inc("probe_module_service_call_settled")
				}
			}
		}
	}
	if checkAll {
		if d := diffMaps(exp, balDeltas(pre, post), ignore); d != "" {
			rule := "consumer_delta"
			if r.Kind == "msg" && r.Msg.T == "respond" {
				rule = "settlement_delta"
			}
			x.viol("C02", rule, fmt.Sprintf("%s at height %d: %s", describeStep(r), post.Height, d), nil)
			return
		}
	}
	// earnings records move only by an accepted, well-formed response (withdraw handled above)
	got := earnedMap(post)
	for k, v := range expEarned {
		if v == 0 {
			delete(expEarned, k)
		}
	}
	for k, v := range got {
		if v == 0 {
			delete(got, k)
		}
	}
	if d := diffMaps(expEarned, got, nil); d != "" {
		x.viol("C02", "earn_delta", fmt.Sprintf("%s at height %d: earnings record %s", describeStep(r), post.Height, d), nil)
	}
	// a pending marker may disappear only through a response (tx) or the expiry of its block (EndBlock)
	for _, rid := range sortedBoolKeys(pre.Active15) {
		if post.Active15[rid] {
			continue
		}
		okStep := (r.Kind == "msg" && (r.Msg.T == "respond" || r.Msg.T == "call")) || r.Kind == "end" || r.Kind == "export"
		if !okStep {
			x.viol("C02", "unsettled_marker_removed", fmt.Sprintf("pending request %s lost its marker in %s", rid[:16], describeStep(r)), nil)
		}
	}
}

func finishC02(x *Exec) {
	ids := make([]string, 0, len(x.tr.Reqs))
	for id := range x.tr.Reqs {
		ids = append(ids, id)
	}
	sort.Strings(ids)
	for _, id := range ids {
		ri := x.tr.Reqs[id]
		if ri.Fee > 0 && ri.Settlement == "" && ri.ExpiresAt <= x.cur.Height {
			attrs := map[string]string{"context_origin": x.ctxOrigin(ri.Ctx)}
			if ci := x.tr.Ctxs[ri.Ctx]; ci != nil && ci.HugeFreq {
				attrs["frequency"] = "ge_2^62"
			}
			x.viol("C02", "unsettled_after_drain", fmt.Sprintf("request %s (fee %d, expires %d) neither earned nor refunded at height %d", id[:16], ri.Fee, ri.ExpiresAt, x.cur.Height), attrs)
			return
		}
	}
}

// ---- C03 / C04 ------------------------------------------------------------------------------------

// expectedFailures: which bindings fail how many requests in this step (statement of C04).
func expectedFailures(x *Exec, r *StepRec) map[string]int {
	f := map[string]int{}
	pre := r.Pre
	switch {
	case r.Kind == "end":
		h := r.Post.Height
		for _, rid := range sortedBoolKeys(pre.Active15) {
			q, ok := pre.Req[rid]
			if !ok || q.ExpirationHeight != h {
				continue
			}
			c, ok := pre.Ctx[hx(q.RequestContextId)]
			if !ok || c.SuperMode {
				continue
			}
			if ri := x.tr.Reqs[rid]; ri != nil && ri.Answered {
				// the provider's response was accepted earlier (ledger of successful respond messages): whatever the module
				// still keeps about the request, it did not time out unanswered
				x.stats.inc("probe_answered_request_still_marked_at_expiry")
				continue
			}
			f[bkey(c.ServiceName, q.Provider)]++
		}
	case r.Kind == "msg" && r.Msg.T == "call":
		// a call to a module-reserved service is answered inside the step by the module that registered it: a malformed
		// answer is a failed request of the module's binding
		for _, rid := range r.Post.ReqIDs() {
			if _, old := pre.Req[rid]; old {
				continue
			}
			q := r.Post.Req[rid]
			if _, ok := r.Post.Resp[rid]; ok && servedOutputKind(r, rid) == "malformed" {
				if c, ok := r.Post.Ctx[hx(q.RequestContextId)]; ok {
					f[bkey(c.ServiceName, q.Provider)]++
				}
			}
		}
	case r.Kind == "msg" && r.Msg.T == "respond":
		if outputKind(r.Msg.Output) == "malformed" {
			rid := hx(r.SdkMsg.(*types.MsgRespondService).RequestId)
			if q, ok := pre.Req[rid]; ok {
				if c, ok := pre.Ctx[hx(q.RequestContextId)]; ok {
					f[bkey(c.ServiceName, q.Provider)]++
				}
			}
		}
	}
	return f
}

func slashN(dep int64, frac *big.Rat, n int) (int64, int64) {
	var total int64
	for i := 0; i < n; i++ {
		s := floorMul(dep, frac)
		dep -= s
		total += s
	}
	return dep, total
}

func oracleC03(x *Exec, r *StepRec) {
	if r.Kind == "msgfail" || r.Kind == "modfail" || r.Kind == "commit" {
		return
	}
	pre, post := r.Pre, r.Post
	var sum int64
	for _, bk := range post.BindingKeys() {
		sum += coinsStake(post.Bindings[bk].Deposit)
	}
	if bal := post.BalOf(depositAcc); bal != sum {
		x.viol("C03", "deposit_account_mismatch", fmt.Sprintf("after %s at height %d: deposit account %d != sum of recorded deposits %d", describeStep(r), post.Height, bal, sum), nil)
		return
	}
	fails := expectedFailures(x, r)
	frac := decRat(pre.Params.SlashFraction)
	var burned int64
	for _, bk := range post.BindingKeys() {
		nb := post.Bindings[bk]
		var od int64
		ob, existed := pre.Bindings[bk]
		if existed {
			od = coinsStake(ob.Deposit)
		}
		nd := coinsStake(nb.Deposit)
		switch {
		case nd > od:
			ok := r.Kind == "msg" && (r.Msg.T == "bind" || r.Msg.T == "update" || r.Msg.T == "enable") &&
				bk == bkey(r.Msg.Svc, resolveAddr(r.Msg.Prov)) && bytes.Equal(r.Sender, nb.Owner) &&
				coinsStake(parseCoins(r.Msg.Deposit)) == nd-od
			if ok {
				// the signer pays exactly that amount
				if post.BalOf(r.Sender)-pre.BalOf(r.Sender) != -(nd - od) {
					x.viol("C03", "topup_not_debited", fmt.Sprintf("%s: deposit grew by %d but owner balance moved by %d", describeStep(r), nd-od, post.BalOf(r.Sender)-pre.BalOf(r.Sender)), nil)
				}
			} else {
				x.viol("C03", "unexplained_deposit_change", fmt.Sprintf("%s: deposit of %s grew %d -> %d", describeStep(r), bk, od, nd), nil)
			}
		case nd < od:
			isRefund := r.Kind == "msg" && r.Msg.T == "refund" && bk == bkey(r.Msg.Svc, resolveAddr(r.Msg.Prov))
			if isRefund {
				// the disabling time is the harness's own record (block time of the step that made the binding
				// unavailable), not the stored field; the stored one is used only for bindings imported disabled
				disabledAt := ob.DisabledTime
				if bi := x.tr.Binds[bk]; bi != nil && bi.HasDisabledAt {
					disabledAt = bi.DisabledAt
				}
				refundable := disabledAt.Add(pre.Params.ArbitrationTimeLimit).Add(pre.Params.ComplaintRetrospect)
				switch {
				case nd != 0:
					x.viol("C03", "partial_refund", fmt.Sprintf("refund left deposit %d", nd), nil)
				case ob.Available:
					x.viol("C03", "refund_precondition", "refund of an available binding succeeded", map[string]string{"pre": "available"})
				case !bytes.Equal(r.Sender, ob.Owner):
					x.viol("C03", "refund_precondition", "refund signed by a non-owner succeeded", map[string]string{"pre": "owner"})
				case post.Time.Before(refundable):
					x.viol("C03", "refund_precondition", fmt.Sprintf("refund succeeded at %s before the refundable instant %s", post.Time, refundable), map[string]string{"pre": "time"})
				case post.BalOf(ob.Owner)-pre.BalOf(ob.Owner) != od:
					x.viol("C03", "refund_recipient", fmt.Sprintf("owner received %d of a %d deposit", post.BalOf(ob.Owner)-pre.BalOf(ob.Owner), od), nil)
				}
				if post.Time.Equal(refundable) {
					x.stats.inc("probe_refund_exact_instant")
				}
				x.stats.inc("probe_refund_ok")
			} else {
				n := fails[bk]
				want, _ := slashN(od, frac, n)
				if n == 0 || nd != want {
					x.viol("C03", "unexplained_deposit_change", fmt.Sprintf("%s: deposit of %s fell %d -> %d (expected %d after %d failure(s))", describeStep(r), bk, od, nd, want, n), nil)
				}
				burned += od - nd
			}
		}
	}
	if r.Kind != "begin" {
		if ds := pre.Supply - post.Supply; ds != burned {
			x.viol("C03", "supply_delta", fmt.Sprintf("%s: total supply fell by %d but %d was slashed", describeStep(r), ds, burned), nil)
		}
	}
	if r.Kind == "msg" && r.Msg.T == "refund" {
		// success with zero deposit is a violation too ("its deposit is non-zero")
		bk := bkey(r.Msg.Svc, resolveAddr(r.Msg.Prov))
		if ob, ok := pre.Bindings[bk]; ok && coinsStake(ob.Deposit) == 0 {
			x.viol("C03", "refund_precondition", "refund of a zero deposit succeeded", map[string]string{"pre": "zero"})
		}
	}
}

func oracleC04(x *Exec, r *StepRec) {
	if r.Kind == "msgfail" || r.Kind == "modfail" || r.Kind == "commit" || r.Kind == "begin" || r.Kind == "params" {
		return
	}
	pre, post := r.Pre, r.Post
	fails := expectedFailures(x, r)
	frac := decRat(pre.Params.SlashFraction)
	touched := ""
	if r.Kind == "msg" {
		switch r.Msg.T {
		case "bind", "update", "enable", "disable", "refund":
			touched = bkey(r.Msg.Svc, resolveAddr(r.Msg.Prov))
		}
	}
	for _, bk := range pre.BindingKeys() {
		ob := pre.Bindings[bk]
		nb, ok := post.Bindings[bk]
		if !ok {
			continue // C15
		}
		if bk == touched {
			continue // an owner operation on this binding: C03 / C14 explain it
		}
		n := fails[bk]
		od, nd := coinsStake(ob.Deposit), coinsStake(nb.Deposit)
		want, _ := slashN(od, frac, n)
		if nd != want {
			rule := "slash_amount"
			if (n == 0) != (nd == od) {
				rule = "slash_count"
			}
			x.viol("C04", rule, fmt.Sprintf("%s at height %d: binding %s had %d failed request(s); deposit %d -> %d, expected %d", describeStep(r), post.Height, bkShow(bk), n, od, nd, want), nil)
			return
		}
		if n > 1 {
			x.stats.inc("probe_multi_slash_one_block")
		}
		if n > 0 {
			x.stats.inc("probe_slash")
			if !ob.Available {
				x.stats.inc("probe_slash_disabled_binding")
			}
			if od == 0 {
				x.stats.inc("probe_slash_refunded_binding")
			}
		}
		wantAvail := ob.Available
		if n > 0 && ob.Available {
			hp, err := ParseHPricing(ob.Pricing)
			if err == nil {
				min := hp.MinDepositFor(coinsStake(pre.Params.MinDeposit), pre.Params.MinDepositMultiple)
				if bigInt(want).Cmp(min) < 0 {
					wantAvail = false
				}
			}
		}
		if nb.Available != wantAvail {
			rule := "auto_disable"
			if n == 0 {
				rule = "spurious_disable"
			}
			x.viol("C04", rule, fmt.Sprintf("%s at height %d: binding %s availability %v -> %v, expected %v (deposit %d after %d failure(s))", describeStep(r), post.Height, bkShow(bk), ob.Available, nb.Available, wantAvail, nd, n), nil)
			return
		}
		if ob.Available && !nb.Available {
			x.stats.inc("probe_slash_disable")
			if !nb.DisabledTime.Equal(post.Time) {
				x.viol("C04", "disable_time", fmt.Sprintf("binding %s disabled by slash with time %s, block time %s", bkShow(bk), nb.DisabledTime, post.Time), nil)
				return
			}
		} else if !nb.DisabledTime.Equal(ob.DisabledTime) {
			x.viol("C04", "disable_time", fmt.Sprintf("%s: disabled time of %s changed without a state change", describeStep(r), bkShow(bk)), nil)
			return
		}
	}
}

func bkShow(bk string) string {
	i := bytes.IndexByte([]byte(bk), 0)
	if i < 0 {
		return bk
	}
	p := bk[i+1:]
	if len(p) > 12 {
		p = p[:12]
	}
	return bk[:i] + "/" + p
}

// ---- C14 ------------------------------------------------------------------------------------------

func oracleC14(x *Exec, r *StepRec) {
	if r.Kind == "msgfail" || r.Kind == "modfail" || r.Kind == "commit" {
		return
	}
	s := r.Post
	for _, bk := range s.BindingKeys() {
		b := s.Bindings[bk]
		if !b.Available {
			continue
		}
		touched := r.Kind == "msg" && (r.Msg.T == "bind" || r.Msg.T == "update" || r.Msg.T == "enable") && bk == bkey(r.Msg.Svc, resolveAddr(r.Msg.Prov))
		if bi := x.tr.Binds[bk]; bi != nil && !touched {
			if bi.GenesisBelowMin {
				continue
			}
			if bi.BelowSinceParamChange {
				// governance raised the minimum above this binding's deposit; nothing the module did. A successful
				// bind/update/enable of it must still leave it compliant (touched), and a slash must disable it.
				if r.Kind == "params" || !(r.Kind == "end" || (r.Kind == "msg" && r.Msg.T == "respond")) {
					x.stats.inc("probe_below_minimum_after_param_raise")
					continue
				}
				if ob, ok := r.Pre.Bindings[bk]; ok && coinsStake(ob.Deposit) == coinsStake(b.Deposit) {
					continue // not slashed in this step
				}
			}
		}
		if r.Kind == "params" {
			continue // a parameter change alone is not an operation of the module
		}
		hp, err := ParseHPricing(b.Pricing)
		if err != nil {
			continue // C15 reports unreadable pricing text
		}
		min := hp.MinDepositFor(coinsStake(s.Params.MinDeposit), s.Params.MinDepositMultiple)
		if bigInt(coinsStake(b.Deposit)).Cmp(min) < 0 {
			attrs := map[string]string{}
			if r.Kind == "msg" {
				attrs["via"] = r.Msg.T
			} else {
				attrs["via"] = r.Kind
			}
			x.viol("C14", "below_minimum", fmt.Sprintf("after %s at height %d: available binding %s holds %d < minimum %s (price text %s)", describeStep(r), s.Height, bkShow(bk), coinsStake(b.Deposit), min, b.Pricing), attrs)
			return
		}
	}
}

// ---- C13 ------------------------------------------------------------------------------------------

func oracleC13(x *Exec, r *StepRec) {
	if r.Kind == "msgfail" || r.Kind == "modfail" || r.Kind == "commit" {
		return
	}
	pre, post := r.Pre, r.Post
	// owner record = sum of the records of the providers it owns
	sums := map[string]int64{}
	for _, e := range post.Earned {
		dl := len(e.Coin.Denom)
		if len(e.KeyRest) <= dl {
			continue
		}
		prov := e.KeyRest[:len(e.KeyRest)-dl]
		owner, ok := x.tr.ProviderOwner[hx(prov)]
		if !ok {
			if o2, ok2 := post.OwnerOf[hx(prov)]; ok2 {
				owner = o2
			} else {
				x.viol("C13", "earnings_without_owner", fmt.Sprintf("earnings record for unknown provider %x", prov), nil)
				return
			}
		}
		sums[hx(owner)] += e.Coin.Amount.Int64()
	}
	owners := map[string]bool{}
	for o := range sums {
		owners[o] = true
	}
	for o := range post.OwnerEarned {
		owners[o] = true
	}
	for _, o := range sortedKeys(owners) {
		var rec int64
		if c, ok := post.OwnerEarned[o]; ok {
			rec = c.Amount.Int64()
		}
		if rec != sums[o] {
			x.viol("C13", "owner_sum", fmt.Sprintf("after %s at height %d: owner %s record %d != sum of its providers' earnings %d", describeStep(r), post.Height, addrName(o), rec, sums[o]), c13Attrs(x, post))
			return
		}
	}
	// withdrawal address changes only by its owner's own message
	for o, a := range post.Withdraw {
		if !bytes.Equal(pre.Withdraw[o], a) {
			ok := r.Kind == "msg" && r.Msg.T == "setwd" && hx(r.Sender) == o
			if !ok {
				x.viol("C13", "withdraw_address", fmt.Sprintf("%s changed the withdrawal address of %s", describeStep(r), addrName(o)), nil)
				return
			}
		}
	}
	for o := range pre.Withdraw {
		if _, ok := post.Withdraw[o]; !ok {
			x.viol("C13", "withdraw_address", fmt.Sprintf("%s removed the withdrawal address of %s", describeStep(r), addrName(o)), nil)
			return
		}
	}
	if r.Kind == "msg" && r.Msg.T == "setwd" {
		// the owner's message takes effect: the stored address is the one it named
		inForce := r.Sender // the owner itself unless another address is stored
		if w, ok := post.Withdraw[hx(r.Sender)]; ok {
			inForce = w
		}
		if want := resolveAddr(r.Msg.To); !bytes.Equal(inForce, want) {
			x.viol("C13", "withdraw_address_not_set", fmt.Sprintf("owner %s set its withdrawal address to %x but %x is in force", addrName(hx(r.Sender)), want, inForce), nil)
			return
		}
	}
	if r.Kind != "msg" || r.Msg.T != "withdraw" {
		return
	}
	// withdraw step rule
	owner := r.Sender
	preE, postE := earnedMap(pre), earnedMap(post)
	paidKeys := map[string]bool{}
	var want int64
	if r.Msg.Prov != "" {
		p := resolveAddr(r.Msg.Prov)
		want = pre.EarnedOf(p)
		paidKeys[hx(p)+hx([]byte("stake"))] = true
		x.stats.inc("probe_withdraw_provider_mode")
	} else {
		for ph, o := range x.tr.ProviderOwner {
			if bytes.Equal(o, owner) {
				paidKeys[ph+hx([]byte("stake"))] = true
			}
		}
		if c, ok := pre.OwnerEarned[hx(owner)]; ok {
			want = c.Amount.Int64()
		}
		var s2 int64
		for k := range paidKeys {
			s2 += preE[k]
		}
		if s2 != want {
			want = s2 // owner_sum above already guards equality; keep the per-provider truth
		}
		x.stats.inc("probe_withdraw_owner_mode")
	}
	dest := owner
	if w, ok := x.tr.WithdrawAddr[hx(owner)]; ok {
		dest = w
		if !bytes.Equal(w, owner) {
			x.stats.inc("probe_withdraw_to_other_address")
		}
	}
	d := balDeltas(pre, post)
	exp := map[string]int64{}
	if want != 0 {
		exp[hx(requestAcc)] -= want
		exp[hx(dest)] += want
	}
	if df := diffMaps(exp, d, nil); df != "" {
		x.viol("C13", "payout", fmt.Sprintf("withdraw (%s mode) should pay %d to %s: %s", modeOf(r.Msg), want, addrName(hx(dest)), df), c13Attrs(x, pre))
		return
	}
	if want > 0 {
		x.stats.inc("probe_withdraw_paid")
	}
	for k, v := range preE {
		nv := postE[k]
		if paidKeys[k] {
			if nv != 0 {
				x.viol("C13", "record_not_reset", fmt.Sprintf("paid earnings record %s still %d", k, nv), c13Attrs(x, pre))
				return
			}
		} else if nv != v {
			x.viol("C13", "collateral_change", fmt.Sprintf("withdraw (%s mode) changed another provider's earnings record %s: %d -> %d", modeOf(r.Msg), k, v, nv), c13Attrs(x, pre))
			return
		}
	}
	for o, c := range pre.OwnerEarned {
		if o == hx(owner) {
			continue
		}
		if nc, ok := post.OwnerEarned[o]; !ok || !nc.Amount.Equal(c.Amount) {
			x.viol("C13", "collateral_change", fmt.Sprintf("withdraw by %s changed the earnings of owner %s", addrName(hx(owner)), addrName(o)), c13Attrs(x, pre))
			return
		}
	}
}

func modeOf(m *MsgOp) string {
	if m.Prov != "" {
		return "provider"
	}
	return "owner"
}

// c13Attrs: is some provider address a strict byte-prefix of another (cause attribute for signatures)?
func c13Attrs(x *Exec, s *Snap) map[string]string {
	var provs [][]byte
	for ph := range s.OwnerOf {
		b, _ := hexDecode(ph)
		provs = append(provs, b)
	}
	for i := range provs {
		for j := range provs {
			if i != j && len(provs[i]) < len(provs[j]) && bytes.HasPrefix(provs[j], provs[i]) {
				return map[string]string{"provider_is_strict_prefix_of_another": "true"}
			}
		}
	}
	return map[string]string{}
}
