package main

// Simulated actors: owners, providers, consumers, strangers, the foreign module. They read the chain through the
// executor's current snapshot (what the real queries return is checked separately by C17).

import (
	"math/big"
	"bytes"
	"fmt"
	"math"
	"strings"
	"time"

	"github.com/irismod/service/types"
)

const okResult = `{"code":200,"message":""}`
const errResult = `{"code":400,"message":"bad request"}`
const goodOutput = `{"header":{},"body":{"v":1}}`
const goodOutput2 = `{"header":{"x":"y"}}`
const badOutput = `{"body":{}}`
const badOutput2 = `{"header":7,"body":{}}`
// outputs that are valid JSON (the stateless validation demands no more) and fail / pass the output schema in different
// ways: header missing, of the wrong type or null, spelled in another letter case; body of the wrong type or null; a
// document that is not an object at all; additional members and nested values are fine
var badOutputs = []string{badOutput, badOutput2, badOutput, badOutput2, `{"header":{},"body":null}`, `{"Header":{},"body":{}}`, `{"header":null}`,
	`[]`, `"x"`, `7`, `null`, `{"header":{},"body":[]}`, `{"header":{},"body":"b"}`, `{"header":[],"body":{}}`, `{"HEADER":{}}`, `{}`}
var goodOutputs = []string{goodOutput, goodOutput2, goodOutput, goodOutput2, `{"header":{},"body":{},"extra":1}`, `{"header":{"a":[1,2]},"body":{"n":null}}`, `{"header":{},"Body":7}`}

const goodInput = `{"header":{},"body":{}}`
const goodSchemas = `{"input":{"type":"object"},"output":{"type":"object"}}`

var svcNamePool = []string{"a", "ab", "a-b", "a_1", "abc", "svc", "a-", "Ab", "a" + strings.Repeat("x", 69),
	"a" + strings.Repeat("x", 68) + "y", "a" + strings.Repeat("x", 63), "a" + strings.Repeat("x", 64)}

func (g *Gen) refOf(acct int) string { return acctRef(acct) }

func (g *Gen) allProviderRefs() []string {
	var out []string
	for _, p := range g.providers {
		out = append(out, acctRef(p))
	}
	out = append(out, g.rawProvs...)
	return out
}

func refOfAddr(g *Gen, addr []byte) string {
	for i := 0; i < g.cfg.NAccounts; i++ {
		if bytes.Equal(acctAddr(i), addr) {
			return acctRef(i)
		}
	}
	return rawRef(addr)
}

func (g *Gen) tx(sender int, msgs ...MsgOp) Op {
	return Op{K: "tx", Tx: &TxOp{Label: g.label("t"), Sender: acctRef(sender), Msgs: msgs}}
}

// stakePrice: the base price of a published pricing in the base denomination (a foreign token converted at the feed's
// current rate, rounded up; 1 if the feed has none)
func (g *Gen) stakePrice(pricing string) (int64, bool) {
	hp, err := ParseHPricing(pricing)
	if err != nil {
		return 0, false
	}
	b := hp.Base
	if hp.Foreign() {
		r := rateFor(g.x.cur.Rates, hp.Denom)
		if r == nil {
			return 1, true
		}
		b = new(big.Int).Add(floorRat(new(big.Rat).Mul(new(big.Rat).SetInt(hp.Base), r)), big.NewInt(1))
	}
	if !b.IsInt64() {
		return 0, false
	}
	return b.Int64(), true
}

func (g *Gen) curMinDeposit(pricing string) int64 {
	s := g.x.cur
	hp, err := ParseHPricing(pricing)
	if err != nil {
		return coinsStake(s.Params.MinDeposit)
	}
	m := hp.MinDepositFor(coinsStake(s.Params.MinDeposit), s.Params.MinDepositMultiple)
	if !m.IsInt64() {
		return math.MaxInt64 / 4
	}
	return m.Int64()
}

var discountPool = []string{"0.5", "0.1", "0.9", "0.25", "0.333333333333333333", "0.000000001", "0.999999999", "0.7",
	"0.499999999999999999", "0.500000000000000001", "0.999999999999999999", "0.333333333333333334", "0.000000000000000001"}

// fmtTime: the same instant, sometimes written with a non-UTC offset (RFC 3339 allows it)
func (g *Gen) fmtTime(t time.Time) string {
	if g.chance(0.15) {
		z := []int{8 * 3600, -5*3600 - 1800, 14 * 3600, -11 * 3600}[g.pick(4)]
		return t.In(time.FixedZone("", z)).Format(time.RFC3339Nano)
	}
	return t.Format(time.RFC3339Nano)
}

func (g *Gen) pickDiscount() string {
	if g.chance(0.03) {
		return pickStr(g, []string{"10.5", "1.5", "2.25", "100.1"}) // not below 1: the schema must refuse it
	}
	return pickStr(g, discountPool)
}

func (g *Gen) genPricing() string {
	price := pickStr(g, []string{"0stake", "0.5stake", "1stake", "1stake", "2stake", "3stake", "10stake", "10stake", "7stake", "1000stake", "1.9stake"})
	if g.stretch && g.chance(0.2) && g.x.cur.Params.MinDepositMultiple <= 10 {
		price = pickStr(g, []string{"3000000000stake", "5000000000stake", "10000000000000000stake", "4294967296stake", "2147483648stake"})
	}
	if g.chance(0.02) {
		// a price whose minimum deposit (price x multiple) does not fit 64 bits: no affordable deposit covers it
		price = pickStr(g, []string{"92233720368547759stake", "18446744073709551616stake", "9223372036854775808stake"})
	}
	if g.multi && g.mrng.Float64() < 0.55 {
		price = []string{"1gold", "0.002gold", "0.0001gold", "5ugold", "1500ugold", "1.5ugold", "3silver", "10silver", "0silver", "1000silver", "2.5gold"}[g.mrng.Intn(11)]
		g.x.stats.inc("probe_foreign_pricing_generated")
	}
	maxPromos := 3
	if g.stretch {
		maxPromos = 5
	}
	var parts []string
	parts = append(parts, fmt.Sprintf(`"price":"%s"`, price))
	if g.chance(g.prof.TimePromos) {
		n := 1 + g.pick(maxPromos)
		// windows in the near simulated future, back to back or with gaps
		start := g.simT + int64(g.pick(40))*1e9
		var ws []string
		for i := 0; i < n; i++ {
			dur := int64(1+g.pick(30)) * 1e9
			if g.chance(0.2) {
				dur = 1 // one-nanosecond window
			}
			end := start + dur
			st := g.fmtTime(g.x.genesis.Add(time.Duration(start)))
			et := g.fmtTime(g.x.genesis.Add(time.Duration(end)))
			ws = append(ws, fmt.Sprintf(`{"start_time":"%s","end_time":"%s","discount":"%s"}`, st, et, g.pickDiscount()))
			g.addAnchor(start)
			g.addAnchor(end)
			start = end
			if g.chance(0.5) {
				start += int64(1+g.pick(20)) * 1e9
			}
		}
		if g.chance(0.08) {
			// an open-ended promotion: starts soon, ends in the year 9999
			st := g.x.genesis.Add(time.Duration(start + 1e9)).Format(time.RFC3339Nano)
			ws = append(ws, fmt.Sprintf(`{"start_time":"%s","end_time":"9999-12-31T00:00:00Z","discount":"%s"}`, st, pickStr(g, discountPool)))
			g.addAnchor(start + 1e9)
		}
		if len(ws) > 5 {
			ws = ws[len(ws)-5:]
		}
		parts = append(parts, `"promotions_by_time":[`+strings.Join(ws, ",")+`]`)
	}
	if g.chance(0.5) {
		n := 1 + g.pick(maxPromos)
		v := uint64(1 + g.pick(2))
		var vs []string
		for i := 0; i < n; i++ {
			vs = append(vs, fmt.Sprintf(`{"volume":%d,"discount":"%s"}`, v, g.pickDiscount()))
			if !g.chance(0.1) { // rarely: two promotions with the same threshold (legal)
				v += uint64(1 + g.pick(3))
			}
		}
		if len(vs) >= 3 && g.chance(0.08) {
			// not in ascending order: the module must refuse such a pricing
			vs[len(vs)-1], vs[len(vs)-2] = vs[len(vs)-2], vs[len(vs)-1]
			g.x.stats.inc("boundary_unsorted_volume_promotions")
		}
		parts = append(parts, `"promotions_by_volume":[`+strings.Join(vs, ",")+`]`)
	}
	return "{" + strings.Join(parts, ",") + "}"
}

func (g *Gen) depositAround(min int64) string {
	var d int64
	switch g.pick(8) {
	case 0:
		d = min - 1
	case 1, 2:
		d = min
	case 3:
		d = min + 1
	case 4:
		d = 2 * min
	case 5:
		d = min + int64(g.pick(50))
	default:
		d = min + int64(g.pick(int(minI64(min, 5000))+1))
	}
	if d <= 0 {
		return ""
	}
	return fmt.Sprintf("%dstake", d)
}

// ---- view helpers --------------------------------------------------------------------------------------

func (g *Gen) definedSvcs() []string {
	var out []string
	for _, n := range g.svcNames {
		if _, ok := g.x.cur.Defs[n]; ok {
			out = append(out, n)
		}
	}
	return out
}

func (g *Gen) bindingsOf(svc string) []*types.ServiceBinding {
	var out []*types.ServiceBinding
	for _, bk := range g.x.cur.BindingKeys() {
		b := g.x.cur.Bindings[bk]
		if b.ServiceName == svc {
			out = append(out, b)
		}
	}
	return out
}

func (g *Gen) allBindings() []*types.ServiceBinding {
	var out []*types.ServiceBinding
	for _, bk := range g.x.cur.BindingKeys() {
		out = append(out, g.x.cur.Bindings[bk])
	}
	return out
}

func (g *Gen) acctIndex(addr []byte) int {
	for i := 0; i < g.cfg.NAccounts; i++ {
		if bytes.Equal(acctAddr(i), addr) {
			return i
		}
	}
	return -1
}

// ---- the per-block activity ---------------------------------------------------------------------------

func (g *Gen) actorsAct() {
	p := g.prof
	n := 1 + g.pick(4)
	for i := 0; i < n; i++ {
		w := []float64{p.WOwner, p.WConsumer, p.WControl, p.WStranger, p.WModule}
		if g.block < 3 {
			w[0] *= 4 // set the stage first
		}
		switch g.weighted(w) {
		case 0:
			g.ownerAct()
		case 1:
			g.consumerAct()
		case 2:
			g.controlAct()
		case 3:
			g.strangerAct()
		case 4:
			if g.useModule {
				g.moduleAct()
			} else {
				g.consumerAct()
			}
		}
	}
	if g.faults["multimsg"] && g.chance(0.15) {
		g.multiMsgAct()
	}
	if g.chance(g.prof.Burst) {
		g.burstAct()
	}
	if g.stretch {
		g.stretchAct()
	}
	if g.whale && g.chance(0.15) {
		g.whaleAct()
	}
	// providers watch for requests every block
	g.providersAct()
}

// multiMsgAct: F6b — several messages in one transaction; a failing later message must undo the earlier ones.
func (g *Gen) multiMsgAct() {
	svcs := g.definedSvcs()
	binds := g.allBindings()
	switch g.pick(6) {
	case 5:
		// a definition followed by a message that fails: the definition must be gone again
		o := pickInt(g, g.owners)
		name := pickStr(g, g.svcNames)
		g.submit(g.tx(o, MsgOp{T: "define", Svc: name, Desc: "d2", Tags: []string{"t"}, Schemas: goodSchemas},
			MsgOp{T: "bind", Svc: name, Prov: acctRef(o), Deposit: "1stake", Pricing: `{"price":"1000000stake"}`, QoS: 1, Options: "{}"}), 0)
	case 0:
		if len(svcs) > 0 && len(binds) > 0 {
			c := pickInt(g, g.consumers)
			b := binds[g.pick(len(binds))]
			if b.ServiceName == types.OraclePriceServiceName && !g.useModSvcCalls {
				return // calls to the module-reserved service only in runs flagged for them (known finding M1)
			}
			m := MsgOp{T: "call", Svc: b.ServiceName, Providers: []string{refOfAddr(g, b.Provider)}, Input: goodInput, FeeCap: "2000stake", Timeout: 1 + int64(g.pick(int(minI64(g.x.cur.Params.MaxRequestTimeout, 3))))}
			m2 := m
			m2.Repeated, m2.Total = true, 2
			msgs := []MsgOp{m, m2}
			if g.chance(0.4) {
				msgs = append(msgs, MsgOp{T: "pause", Ctx: "x:" + strings.Repeat("00", 40)}) // fails: unknown context
			}
			g.submit(g.tx(c, msgs...), 0)
		}
	case 1:
		if len(binds) > 0 {
			b := binds[g.pick(len(binds))]
			if o := g.acctIndex(b.Owner); o >= 0 {
				ref := refOfAddr(g, b.Provider)
				msgs := []MsgOp{{T: "update", Svc: b.ServiceName, Prov: ref, Deposit: fmt.Sprintf("%dstake", 1+g.pick(20)), Options: "{}"}, {T: "disable", Svc: b.ServiceName, Prov: ref}}
				if g.chance(0.5) {
					msgs = append(msgs, MsgOp{T: "refund", Svc: b.ServiceName, Prov: ref}) // usually too early: fails, all undone
				}
				g.submit(g.tx(o, msgs...), 0)
			}
		}
	case 2:
		o := pickInt(g, g.owners)
		g.submit(g.tx(o, MsgOp{T: "setwd", To: acctRef(g.pick(g.cfg.NAccounts))}, MsgOp{T: "withdraw"}), 0)
	case 3:
		// a provider answers two requests in one tx; the second may be stale
		s := g.x.cur
		byProv := map[int][]string{}
		for _, rid := range sortedBoolKeys(s.Active15) {
			if q, ok := s.Req[rid]; ok {
				if pi := g.acctIndex(q.Provider); pi >= 0 {
					byProv[pi] = append(byProv[pi], rid)
				}
			}
		}
		for pi := 0; pi < g.cfg.NAccounts; pi++ {
			if l := byProv[pi]; len(l) >= 2 {
				g.submit(g.tx(pi, MsgOp{T: "respond", Req: "x:" + l[0], Result: okResult, Output: goodOutput}, MsgOp{T: "respond", Req: "x:" + l[1], Result: okResult, Output: pickStr(g, []string{goodOutput, badOutput})}), g.pick(2))
				break
			}
		}
	case 4:
		if len(svcs) > 0 {
			o := pickInt(g, g.owners)
			svc := pickStr(g, svcs)
			pricing := `{"price":"1stake"}`
			min := g.curMinDeposit(pricing)
			p1, p2 := pickStr(g, g.allProviderRefs()), pickStr(g, g.allProviderRefs())
			g.submit(g.tx(o, MsgOp{T: "bind", Svc: svc, Prov: p1, Deposit: fmt.Sprintf("%dstake", min), Pricing: pricing, QoS: 1, Options: "{}"},
				MsgOp{T: "bind", Svc: svc, Prov: p2, Deposit: fmt.Sprintf("%dstake", min), Pricing: pricing, QoS: 1, Options: "{}"}), 0)
		}
	}
}

func (g *Gen) weighted(w []float64) int {
	var t float64
	for _, v := range w {
		t += v
	}
	r := g.rng.Float64() * t
	for i, v := range w {
		if r < v {
			return i
		}
		r -= v
	}
	return len(w) - 1
}

func (g *Gen) ownerAct() {
	owner := pickInt(g, g.owners)
	svcs := g.definedSvcs()
	binds := g.allBindings()
	var mine []*types.ServiceBinding
	for _, b := range binds {
		if bytes.Equal(b.Owner, acctAddr(owner)) {
			mine = append(mine, b)
		}
	}
	choice := g.pick(12)
	if len(svcs) == 0 {
		choice = 0
	} else if len(mine) == 0 && choice > 2 {
		choice = 1
	}
	switch choice {
	case 0: // define
		name := pickStr(g, g.svcNames)
		g.submit(g.tx(owner, MsgOp{T: "define", Svc: name, Desc: "d", Tags: []string{"t1"}, Schemas: goodSchemas}), 0)
	case 1, 2: // bind
		svc := pickStr(g, svcs)
		prov := pickStr(g, g.allProviderRefs())
		if g.chance(0.15) {
			prov = acctRef(owner) // the owner as its own provider
		}
		pricing := g.genPricing()
		min := g.curMinDeposit(pricing)
		qos := uint64(1 + g.pick(int(minI64(g.x.cur.Params.MaxRequestTimeout, 6))))
		if g.chance(0.05) {
			qos = uint64(g.x.cur.Params.MaxRequestTimeout) + uint64(g.pick(2))
		}
		g.submit(g.tx(owner, MsgOp{T: "bind", Svc: svc, Prov: prov, Deposit: g.depositAround(min), Pricing: pricing, QoS: qos, Options: "{}"}), 0)
	case 3, 4: // update: price up / down / top-up / qos only
		b := mine[g.pick(len(mine))]
		m := MsgOp{T: "update", Svc: b.ServiceName, Prov: refOfAddr(g, b.Provider), Options: "{}"}
		switch g.pick(5) {
		case 0:
			m.Pricing = g.genPricing()
		case 1:
			m.Pricing = g.genPricing()
			min := g.curMinDeposit(m.Pricing)
			cur := coinsStake(b.Deposit)
			if min > cur {
				m.Deposit = fmt.Sprintf("%dstake", min-cur+int64(g.pick(3))-1)
			}
		case 2:
			m.Deposit = fmt.Sprintf("%dstake", 1+g.pick(100))
		case 3:
			m.QoS = uint64(1 + g.pick(int(minI64(g.x.cur.Params.MaxRequestTimeout, 6))))
		case 4:
			// price change aimed at the deposit threshold: price = deposit/multiple (+1)
			mult := g.x.cur.Params.MinDepositMultiple
			pr := coinsStake(b.Deposit)/mult + int64(g.pick(3)) - 1
			if pr < 0 {
				pr = 0
			}
			m.Pricing = fmt.Sprintf(`{"price":"%dstake"}`, pr)
		}
		g.submit(g.tx(owner, m), 0)
	case 5: // disable
		b := mine[g.pick(len(mine))]
		g.submit(g.tx(owner, MsgOp{T: "disable", Svc: b.ServiceName, Prov: refOfAddr(g, b.Provider)}), 0)
		// the refundable instant becomes a clock target
		ref := g.simT + int64(g.x.cur.Params.ArbitrationTimeLimit) + int64(g.x.cur.Params.ComplaintRetrospect)
		g.addAnchor(ref)
	case 6: // enable
		b := mine[g.pick(len(mine))]
		m := MsgOp{T: "enable", Svc: b.ServiceName, Prov: refOfAddr(g, b.Provider)}
		min := g.curMinDeposit(b.Pricing)
		cur := coinsStake(b.Deposit)
		if g.chance(0.6) && min > cur {
			m.Deposit = fmt.Sprintf("%dstake", maxI64(1, min-cur+int64(g.pick(3))-1))
		} else if g.chance(0.3) {
			m.Deposit = fmt.Sprintf("%dstake", 1+g.pick(50))
		}
		g.submit(g.tx(owner, m), 0)
	case 7, 8: // refund (early, on time, twice)
		b := mine[g.pick(len(mine))]
		if !b.Available {
			ref := b.DisabledTime.Add(g.x.cur.Params.ArbitrationTimeLimit).Add(g.x.cur.Params.ComplaintRetrospect)
			g.addAnchor(int64(ref.Sub(g.x.genesis)))
		}
		g.submit(g.tx(owner, MsgOp{T: "refund", Svc: b.ServiceName, Prov: refOfAddr(g, b.Provider)}), 0)
		if g.chance(0.2) {
			g.submit(g.tx(owner, MsgOp{T: "refund", Svc: b.ServiceName, Prov: refOfAddr(g, b.Provider)}), g.pick(2))
		}
	case 9: // set withdrawal address
		var to string
		switch g.pick(5) {
		case 0:
			to = acctRef(owner)
		case 1:
			to = "m:" + types.DepositAccName // blocked recipient
		default:
			to = acctRef(g.pick(g.cfg.NAccounts))
		}
		g.submit(g.tx(owner, MsgOp{T: "setwd", To: to}), 0)
	case 10, 11: // withdraw
		m := MsgOp{T: "withdraw"}
		if g.chance(0.5) {
			b := mine[g.pick(len(mine))]
			m.Prov = refOfAddr(g, b.Provider)
		}
		g.submit(g.tx(owner, m), 0)
	}
}

func (g *Gen) consumerAct() {
	svcs := g.definedSvcs()
	if len(svcs) == 0 {
		return
	}
	consumer := pickInt(g, g.consumers)
	if g.faults["poor"] && g.chance(0.3) {
		consumer = g.poor
	}
	svc := pickStr(g, svcs)
	if g.useModSvcCalls && g.chance(0.25) {
		in := []string{goodInput, goodInput, `{"header":{},"body":{"pair":"ugold-stake"}}`, `{"header":{},"body":{"pair":"silver-stake"}}`,
			`{"header":{},"body":{"mode":"bad"}}`, `{"header":{},"body":{"mode":"err"}}`}[g.mrng.Intn(6)]
		capv := []string{"10stake", "10stake", "1stake", "2000stake"}[g.mrng.Intn(4)]
		m := MsgOp{T: "call", Svc: types.OraclePriceServiceName, Providers: []string{acctRef(consumer)}, Input: in, FeeCap: capv, Timeout: 1}
		switch r := g.mrng.Float64(); {
		case r < 0.15:
			m.Super = true // the flags of the message are the caller's: the module-reserved service is served as a plain one-shot call
		case r < 0.25:
			m.Repeated, m.Freq, m.Total = true, 1, 3
		}
		if g.mrng.Float64() < 0.2 {
			// two such calls in one transaction (the second context id differs by its message index)
			g.submit(g.tx(consumer, m, m), 0)
		} else {
			g.submit(g.tx(consumer, m), 0)
		}
		g.x.stats.inc("probe_modsvc_call")
		return
	}
	binds := g.bindingsOf(svc)
	if len(binds) == 0 {
		return
	}
	maxT := g.x.cur.Params.MaxRequestTimeout
	timeout := int64(1 + g.pick(int(minI64(maxT, 5))))
	if maxT <= 12 && g.chance(0.1) {
		timeout = maxT
	}
	if g.stretch && g.chance(0.15) {
		timeout = int64(1 + g.pick(int(minI64(maxT, 30)))) // long timeouts (the drain is sized for 30)
	}
	var provs []string
	var maxPrice int64 = 1
	for _, b := range binds {
		if g.chance(0.7) {
			provs = append(provs, refOfAddr(g, b.Provider))
			if sp, ok := g.stakePrice(b.Pricing); ok && sp > maxPrice {
				maxPrice = sp
			}
		}
	}
	if len(provs) == 0 {
		provs = append(provs, refOfAddr(g, binds[0].Provider))
	}
	if g.chance(0.15) { // an unbound provider in the list
		provs = append(provs, pickStr(g, g.allProviderRefs()))
		provs = dedup(provs)
	}
	g.rng.Shuffle(len(provs), func(i, j int) { provs[i], provs[j] = provs[j], provs[i] })
	if len(provs) > 10 {
		provs = provs[:10]
	}
	var capv int64
	switch g.pick(6) {
	case 0:
		capv = maxI64(1, maxPrice-1)
	case 1:
		capv = maxPrice
	case 2:
		capv = maxPrice + 1
	case 3:
		capv = maxI64(1, maxPrice/2)
	default:
		capv = maxPrice * 2
	}
	m := MsgOp{T: "call", Svc: svc, Providers: provs, Input: goodInput, FeeCap: fmt.Sprintf("%dstake", capv), Timeout: timeout}
	if g.chance(0.1) {
		m.Super = true
	}
	if g.chance(0.6) {
		m.Repeated = true
		switch g.pick(4) {
		case 0:
			m.Freq = 0
		case 1:
			m.Freq = uint64(timeout)
		case 2:
			m.Freq = uint64(timeout) + 1
		case 3:
			m.Freq = uint64(timeout) + uint64(1+g.pick(4))
		}
		m.Total = pickI64(g, []int64{1, 2, 2, 3, 5, -1})
		if g.chance(0.03) {
			m.Total = pickI64(g, []int64{1 << 31, 1<<31 + 1, 1 << 40, math.MaxInt64}) // "forever" written as a huge total
		}
		if g.chance(0.02) {
			m.Freq = 1<<32 + uint64(timeout) + uint64(g.pick(5)) // a frequency that does not fit 32 bits: no second batch within any run
		}
		if g.useHugeFreq && g.chance(0.3) {
			m.Freq = pickU64(g, []uint64{1 << 62, 1<<63 - 1, 1 << 63, 1<<63 + 5, math.MaxUint64})
		}
	}
	g.submit(g.tx(consumer, m), 0)
	if g.faults["poor"] && g.chance(0.1) {
		// move the money away before a batch is due (F10)
		bal := g.x.cur.BalOf(acctAddr(consumer))
		if bal > 10 {
			g.submit(g.tx(consumer, MsgOp{T: "send", To: acctRef(g.stranger), Amount: bal - int64(g.pick(5))}), g.pick(3))
			g.x.stats.inc("fault_funds_moved_away")
		}
	}
}

func pickU64(g *Gen, s []uint64) uint64 { return s[g.pick(len(s))] }

func dedup(s []string) []string {
	seen := map[string]bool{}
	var out []string
	for _, v := range s {
		if !seen[v] {
			seen[v] = true
			out = append(out, v)
		}
	}
	return out
}

// ctxRefFor: the symbolic reference of a context known to the ledger.
func (g *Gen) ctxRefFor(id string) string {
	if ci, ok := g.x.tr.Ctxs[id]; ok && ci.Ref != "" {
		return ci.Ref
	}
	return "x:" + id
}

// controlAct: pause / start / kill / update of contexts, biased to contexts with a batch start or expiry near.
func (g *Gen) controlAct() {
	s := g.x.cur
	ids := s.CtxIDs()
	if len(ids) == 0 {
		g.consumerAct()
		return
	}
	h := s.Height
	var near []string
	for _, id := range ids {
		if eh, ok := s.ExpH[id]; ok && eh-h <= 2 {
			near = append(near, id)
		} else if nh, ok := s.NewH[id]; ok && nh-h <= 2 {
			near = append(near, id)
		}
	}
	id := ids[g.pick(len(ids))]
	if len(near) > 0 && g.chance(0.6) {
		id = near[g.pick(len(near))]
		g.x.stats.inc("targeted_control")
	}
	c := s.Ctx[id]
	sender := g.acctIndex(c.Consumer)
	if sender < 0 {
		return
	}
	ref := g.ctxRefFor(id)
	if g.longLivedRefs[ref] && !g.chance(0.03) {
		return // the every-block contexts of a stretch run are mostly left alone so that their counters can grow
	}
	delay := g.pick(3)
	var m MsgOp
	switch g.pick(10) {
	case 0, 1, 2:
		m = MsgOp{T: "pause", Ctx: ref}
	case 3, 4, 5:
		m = MsgOp{T: "start", Ctx: ref}
	case 6:
		m = MsgOp{T: "kill", Ctx: ref}
	default:
		m = MsgOp{T: "updctx", Ctx: ref}
		switch g.pick(6) {
		case 0:
			m.Timeout = int64(1 + g.pick(int(minI64(s.Params.MaxRequestTimeout, 5))))
		case 1:
			m.Freq = uint64(c.Timeout) + uint64(g.pick(4))
		case 2:
			m.Total = pickI64(g, []int64{1, 2, 3, 5, -1, int64(c.BatchCounter), int64(c.BatchCounter) + 1})
		case 3:
			m.FeeCap = fmt.Sprintf("%dstake", 1+g.pick(20))
		case 4:
			var provs []string
			for _, b := range g.bindingsOf(c.ServiceName) {
				if g.chance(0.6) {
					provs = append(provs, refOfAddr(g, b.Provider))
				}
			}
			m.Providers = provs
		case 5:
			m.Timeout = int64(1 + g.pick(4))
			m.Freq = uint64(m.Timeout) + uint64(g.pick(3))
		}
	}
	if c.ModuleName != "" && g.useModule && g.chance(0.7) {
		// contexts of the foreign module are driven by the module itself
		mo := &ModOp{Label: g.label("m"), T: map[string]string{"pause": "pause", "start": "start", "kill": "kill", "updctx": "update"}[m.T], Ctx: ref,
			Consumer: acctRef(sender), Providers: m.Providers, FeeCap: m.FeeCap, Timeout: m.Timeout, Freq: m.Freq, Total: m.Total}
		if g.chance(0.1) {
			mo.Consumer = acctRef(g.stranger) // wrong consumer
		}
		if mo.T == "update" && g.chance(0.3) {
			mo.Threshold = uint32(1 + g.pick(3))
		}
		g.submit(Op{K: "mod", Mod: mo}, delay)
		return
	}
	g.submit(g.tx(sender, m), delay)
	// pause during the last batch, start again after it expired
	if m.T == "pause" && c.Repeated && c.RepeatedTotal > 0 && int64(c.BatchCounter) >= c.RepeatedTotal-1 && g.chance(0.7) {
		g.submit(g.tx(sender, MsgOp{T: "start", Ctx: ref}), int(c.Timeout)+1+g.pick(3))
		g.x.stats.inc("targeted_pause_last_batch")
	}
}

// providersAct: every signing provider looks at its pending requests and answers (valid / malformed / error result /
// not at all / late / twice).
func (g *Gen) providersAct() {
	s := g.x.cur
	for _, rid := range sortedBoolKeys(s.Active15) {
		q, ok := s.Req[rid]
		if !ok {
			continue
		}
		ri := g.x.tr.Reqs[rid]
		if ri == nil {
			continue
		}
		pi := g.acctIndex(q.Provider)
		if pi < 0 {
			// a provider bound under an address that is not a key-holding account: it answers only in runs that
			// allow it (never in export runs, where its earnings would be refunded to an address the bank cannot hold)
			if g.rawResponders && q.RequestHeight == s.Height-1 && g.chance(0.8) {
				ref := reqRefOf(g.ctxRefFor(ri.Ctx), ri.Batch, rawRef(q.Provider))
				g.submit(Op{K: "tx", Tx: &TxOp{Label: g.label("t"), Sender: rawRef(q.Provider), Msgs: []MsgOp{{T: "respond", Req: ref, Result: okResult, Output: goodOutput}}}}, g.pick(int(q.ExpirationHeight-q.RequestHeight)))
			}
			continue
		}
		// decide once per request, in the block after it was issued
		if q.RequestHeight != s.Height-1 {
			continue
		}
		ref := reqRefOf(g.ctxRefFor(ri.Ctx), ri.Batch, acctRef(pi))
		if c, ok := s.Ctx[ri.Ctx]; ok && g.stretch && c.ModuleName != "" && len(c.Providers) >= 6 && g.longLivedRefs[g.ctxRefFor(ri.Ctx)] && g.mrng.Float64() < 0.97 {
			g.submit(g.tx(pi, MsgOp{T: "respond", Req: ref, Result: okResult, Output: pickStr(g, []string{goodOutput, goodOutput2})}), 0)
			continue
		}
		if c, ok := s.Ctx[ri.Ctx]; ok && g.stretch && c.Repeated && c.RepeatedTotal < 0 && c.Timeout == 1 && c.RepeatedFrequency == 1 && (g.nBlocks >= 290 || !g.chance(0.05)) {
			// the every-block context of a stretch run: answered reliably, so that its volume and batch counter grow
			g.pool = append(g.pool, pendingTx{op: g.tx(pi, MsgOp{T: "respond", Req: ref, Result: okResult, Output: goodOutput}), due: g.block, order: g.orderN + 1})
			g.orderN++
			continue
		}
		r := g.rng.Float64()
		p := g.prof.WProvider
		timeout := int(q.ExpirationHeight - q.RequestHeight)
		switch {
		case r < 0.55*p:
			m := MsgOp{T: "respond", Req: ref, Result: okResult, Output: pickStr(g, goodOutputs)}
			delay := 0
			if g.chance(0.4) {
				delay = g.pick(timeout) // up to the expiry block
			}
			if g.chance(0.1) {
				delay = timeout - 1 // exactly the expiry block
				g.x.stats.inc("targeted_response_at_expiry")
			}
			g.submit(g.tx(pi, m), delay)
			if g.chance(0.08) {
				g.submit(g.tx(pi, m), delay+g.pick(2)) // answered twice
				g.x.stats.inc("targeted_double_response")
			}
		case r < 0.68*p:
			g.submit(g.tx(pi, MsgOp{T: "respond", Req: ref, Result: okResult, Output: pickStr(g, badOutputs)}), g.pick(timeout))
		case r < 0.78*p:
			g.submit(g.tx(pi, MsgOp{T: "respond", Req: ref, Result: errResult}), g.pick(timeout))
		case r < 0.86*p:
			// late: after the expiry block
			g.submit(g.tx(pi, MsgOp{T: "respond", Req: ref, Result: okResult, Output: goodOutput}), timeout+g.pick(2))
			g.x.stats.inc("targeted_late_response")
		default:
			// never
		}
	}
}

// strangerAct: Byzantine clients — every message type re-signed by the wrong party, unknown ids, boundary shapes.
func (g *Gen) strangerAct() {
	s := g.x.cur
	st := g.stranger
	if g.chance(0.3) {
		st = g.pick(g.cfg.NAccounts)
	}
	binds := g.allBindings()
	ctxs := s.CtxIDs()
	reqs := sortedBoolKeys(s.Active15)
	if g.chance(g.prof.Boundary) {
		g.boundaryAct(st)
		return
	}
	if g.mrng.Float64() < 0.12 {
		g.ghostAct(st)
		return
	}
	switch g.pick(14) {
	case 0:
		if len(binds) > 0 {
			b := binds[g.pick(len(binds))]
			g.submit(g.tx(st, MsgOp{T: "update", Svc: b.ServiceName, Prov: refOfAddr(g, b.Provider), Deposit: "5stake", Options: "{}"}), 0)
		}
	case 1:
		if len(binds) > 0 {
			b := binds[g.pick(len(binds))]
			g.submit(g.tx(st, MsgOp{T: "disable", Svc: b.ServiceName, Prov: refOfAddr(g, b.Provider)}), 0)
		}
	case 2:
		if len(binds) > 0 {
			b := binds[g.pick(len(binds))]
			g.submit(g.tx(st, MsgOp{T: "enable", Svc: b.ServiceName, Prov: refOfAddr(g, b.Provider), Deposit: "5stake"}), 0)
		}
	case 3:
		if len(binds) > 0 {
			b := binds[g.pick(len(binds))]
			g.submit(g.tx(st, MsgOp{T: "refund", Svc: b.ServiceName, Prov: refOfAddr(g, b.Provider)}), 0)
		}
	case 4:
		if len(binds) > 0 {
			b := binds[g.pick(len(binds))]
			g.submit(g.tx(st, MsgOp{T: "withdraw", Prov: refOfAddr(g, b.Provider)}), 0)
		} else {
			g.submit(g.tx(st, MsgOp{T: "withdraw"}), 0)
		}
	case 5, 6:
		if len(ctxs) > 0 {
			id := ctxs[g.pick(len(ctxs))]
			t := pickStr(g, []string{"pause", "start", "kill", "updctx"})
			m := MsgOp{T: t, Ctx: g.ctxRefFor(id)}
			if t == "updctx" {
				m.FeeCap = "1000stake"
			}
			g.submit(g.tx(st, m), 0)
		}
	case 7, 8:
		// a response by the wrong account, to a pending request
		if len(reqs) > 0 {
			rid := reqs[g.pick(len(reqs))]
			g.submit(g.tx(st, MsgOp{T: "respond", Req: "x:" + rid, Result: okResult, Output: goodOutput}), g.pick(2))
		}
	case 9:
		// a response to an unknown / already settled request
		var old []string
		for id, ri := range g.x.tr.Reqs {
			if ri.Settlement != "" {
				old = append(old, id)
			}
		}
		if len(old) > 0 {
			sortStrings(old)
			rid := old[g.pick(len(old))]
			ri := g.x.tr.Reqs[rid]
			sender := g.acctIndex(ri.Provider)
			if sender < 0 {
				sender = st
			}
			g.submit(g.tx(sender, MsgOp{T: "respond", Req: "x:" + rid, Result: okResult, Output: goodOutput}), 0)
		} else {
			g.submit(g.tx(st, MsgOp{T: "respond", Req: "x:" + strings.Repeat("ab", 58), Result: okResult, Output: goodOutput}), 0)
		}
	case 10:
		// rebinding a provider that belongs to another owner
		svcs := g.definedSvcs()
		if len(binds) > 0 && len(svcs) > 0 {
			b := binds[g.pick(len(binds))]
			pricing := `{"price":"1stake"}`
			g.submit(g.tx(st, MsgOp{T: "bind", Svc: pickStr(g, svcs), Prov: refOfAddr(g, b.Provider), Deposit: fmt.Sprintf("%dstake", g.curMinDeposit(pricing)), Pricing: pricing, QoS: 1, Options: "{}"}), 0)
		}
	case 11:
		// redefine an existing service
		svcs := g.definedSvcs()
		if len(svcs) > 0 {
			g.submit(g.tx(st, MsgOp{T: "define", Svc: pickStr(g, svcs), Desc: "other", Schemas: goodSchemas}), 0)
		}
	case 12:
		// binding the module-reserved service
		if g.cfg.ModuleService {
			pricing := `{"price":"1stake"}`
			g.submit(g.tx(st, MsgOp{T: "bind", Svc: types.OraclePriceServiceName, Prov: acctRef(st), Deposit: fmt.Sprintf("%dstake", g.curMinDeposit(pricing)), Pricing: pricing, QoS: 1, Options: "{}"}), 0)
		}
	case 13:
		// paying into the module accounts from outside
		g.submit(g.tx(st, MsgOp{T: "send", To: pickStr(g, []string{"m:" + types.RequestAccName, "m:" + types.DepositAccName}), Amount: int64(1 + g.pick(100))}), 0)
	}
}

// ghostAct: well-formed messages aimed at things that do not exist, or carrying terms the state (not the stateless
// validation) must refuse — the error branches of the handlers. All of them must fail and change nothing.
func (g *Gen) ghostAct(st int) {
	r := g.mrng
	svcs := g.definedSvcs()
	binds := g.allBindings()
	g.x.stats.inc("ghost_msg")
	signer := st
	if len(g.owners) > 0 && r.Float64() < 0.5 {
		signer = g.owners[r.Intn(len(g.owners))] // a legitimate owner of other things
	}
	// a (service, provider) pair without a binding
	ghostSvc, ghostProv := "nosuchservice", acctRef(st)
	if len(svcs) > 0 {
		ghostSvc = svcs[r.Intn(len(svcs))]
		for _, pi := range g.providers {
			if _, ok := g.x.cur.Bindings[bkey(ghostSvc, acctAddr(pi))]; !ok {
				ghostProv = acctRef(pi)
				break
			}
		}
		if _, ok := g.x.cur.Bindings[bkey(ghostSvc, resolveAddr(ghostProv))]; ok {
			ghostSvc = "nosuchservice"
		}
	}
	switch r.Intn(12) {
	case 0:
		g.submit(g.tx(signer, MsgOp{T: "update", Svc: ghostSvc, Prov: ghostProv, Deposit: "7stake", Pricing: `{"price":"1stake"}`, QoS: 1, Options: "{}"}), 0)
	case 1:
		g.submit(g.tx(signer, MsgOp{T: "disable", Svc: ghostSvc, Prov: ghostProv}), 0)
	case 2:
		g.submit(g.tx(signer, MsgOp{T: "enable", Svc: ghostSvc, Prov: ghostProv, Deposit: "7stake"}), 0)
	case 3:
		g.submit(g.tx(signer, MsgOp{T: "refund", Svc: ghostSvc, Prov: ghostProv}), 0)
	case 4:
		// earnings of a provider nobody ever bound
		b := make([]byte, 20)
		for i := range b {
			b[i] = byte(r.Intn(256))
		}
		g.submit(g.tx(signer, MsgOp{T: "withdraw", Prov: rawRef(b)}), 0)
	case 5:
		// the owner commits to a response time beyond the maximum timeout
		if len(binds) > 0 {
			b := binds[r.Intn(len(binds))]
			if oi := g.acctIndex(b.Owner); oi >= 0 {
				g.submit(g.tx(oi, MsgOp{T: "update", Svc: b.ServiceName, Prov: refOfAddr(g, b.Provider), QoS: uint64(g.x.cur.Params.MaxRequestTimeout) + 1 + uint64(r.Intn(3)), Options: "{}"}), 0)
			}
		}
	case 6:
		// a context update whose fee cap is not in the base denomination
		for _, id := range g.x.cur.CtxIDs() {
			c := g.x.cur.Ctx[id]
			if ci := g.acctIndex(c.Consumer); ci >= 0 && c.ModuleName == "" {
				g.submit(g.tx(ci, MsgOp{T: "updctx", Ctx: g.ctxRefFor(id), FeeCap: []string{"5atom", "5ugold", "5stake,5ugold"}[r.Intn(3)]}), 0)
				break
			}
		}
	case 7:
		// a call whose fee cap is not in the base denomination
		if len(binds) > 0 {
			b := binds[r.Intn(len(binds))]
			g.submit(g.tx(g.consumers[r.Intn(len(g.consumers))], MsgOp{T: "call", Svc: b.ServiceName, Providers: []string{refOfAddr(g, b.Provider)}, Input: goodInput, FeeCap: []string{"5atom", "5ugold"}[r.Intn(2)], Timeout: 1}), 0)
		}
	case 8:
		// the foreign module hands over an input that does not fit the service's schema / is not JSON
		if g.useModule && len(binds) > 0 {
			b := binds[r.Intn(len(binds))]
			g.submit(Op{K: "mod", Mod: &ModOp{Label: g.label("m"), T: "create", Svc: b.ServiceName, Providers: []string{refOfAddr(g, b.Provider)}, Consumer: acctRef(g.consumers[0]),
				Input: []string{"not json", `{"header":{}}`, `{"body":{}}`}[r.Intn(3)], FeeCap: "2000stake", Timeout: 1, Threshold: 1}}, 0)
		}
	case 9:
		// binding a service nobody defined
		pricing := `{"price":"1stake"}`
		g.submit(g.tx(signer, MsgOp{T: "bind", Svc: "ghost-svc", Prov: acctRef(signer), Deposit: fmt.Sprintf("%dstake", g.curMinDeposit(pricing)), Pricing: pricing, QoS: 1, Options: "{}"}), 0)
	case 10:
		// calling a service nobody defined, or providers none of which is bound
		g.submit(g.tx(g.consumers[r.Intn(len(g.consumers))], MsgOp{T: "call", Svc: ghostSvc, Providers: []string{ghostProv}, Input: goodInput, FeeCap: "50stake", Timeout: 1}), 0)
	case 11:
		// the foreign module updates one of its contexts with terms the state must refuse
		if g.useModule {
			for _, id := range g.x.cur.CtxIDs() {
				c := g.x.cur.Ctx[id]
				if c.ModuleName != "" {
					mo := &ModOp{Label: g.label("m"), T: "update", Ctx: g.ctxRefFor(id), Consumer: acctRef(maxInt(0, g.acctIndex(c.Consumer)))}
					switch r.Intn(4) {
					case 0:
						mo.Timeout = g.x.cur.Params.MaxRequestTimeout + 1
					case 1:
						mo.Threshold = uint32(len(c.Providers) + 1)
					case 2:
						mo.FeeCap = "5atom"
					case 3:
						mo.Providers = []string{ghostProv, ghostProv}
					}
					g.submit(Op{K: "mod", Mod: mo}, 0)
					break
				}
			}
		}
	}
}

func sortStrings(s []string) {
	for i := 1; i < len(s); i++ {
		for j := i; j > 0 && s[j] < s[j-1]; j-- {
			s[j], s[j-1] = s[j-1], s[j]
		}
	}
}

// boundaryAct: ValidateBasic-passing messages with boundary shapes (C20 "cannot crash the chain").
func (g *Gen) boundaryAct(st int) {
	svcs := g.definedSvcs()
	svc := "a"
	if len(svcs) > 0 {
		svc = pickStr(g, svcs)
	}
	binds := g.allBindings()
	g.x.stats.inc("boundary_msg")
	switch g.pick(14) {
	case 0: // empty deposit on bind
		g.submit(g.tx(st, MsgOp{T: "bind", Svc: svc, Prov: acctRef(st), Deposit: "", Pricing: `{"price":"1stake"}`, QoS: 1, Options: "{}"}), 0)
	case 1: // maximal provider list, none bound
		var provs []string
		for i := 0; i < 10; i++ {
			provs = append(provs, rawRef([]byte{byte(i + 1), 0x77}))
		}
		g.submit(g.tx(st, MsgOp{T: "call", Svc: svc, Providers: provs, Input: goodInput, FeeCap: "1stake", Timeout: 1}), 0)
	case 12: // a one-shot or repeated call with timeout 0 or -1 (stateless validation must refuse it)
		if len(binds) > 0 {
			b := binds[g.pick(len(binds))]
			g.submit(g.tx(st, MsgOp{T: "call", Svc: b.ServiceName, Providers: []string{refOfAddr(g, b.Provider)}, Input: goodInput, FeeCap: "2000stake", Timeout: int64(-g.pick(2)), Repeated: g.chance(0.3), Total: 2}), 0)
		}
	case 13: // hand-built coin lists holding a zero amount: fee cap of a call / of a context update, deposit of an update
		ids := g.x.cur.CtxIDs()
		switch {
		case len(ids) > 0 && g.chance(0.5):
			id := ids[g.pick(len(ids))]
			if o := g.acctIndex(g.x.cur.Ctx[id].Consumer); o >= 0 {
				g.submit(g.tx(o, MsgOp{T: "updctx", Ctx: g.ctxRefFor(id), FeeCap: "!0stake"}), 0)
			}
		case len(binds) > 0 && g.chance(0.5):
			b := binds[g.pick(len(binds))]
			g.submit(g.tx(st, MsgOp{T: "call", Svc: b.ServiceName, Providers: []string{refOfAddr(g, b.Provider)}, Input: goodInput, FeeCap: "!0stake", Timeout: 1}), 0)
		case len(binds) > 0:
			b := binds[g.pick(len(binds))]
			if o := g.acctIndex(b.Owner); o >= 0 {
				g.submit(g.tx(o, MsgOp{T: pickStr(g, []string{"update", "enable"}), Svc: b.ServiceName, Prov: refOfAddr(g, b.Provider), Deposit: "!0stake", Options: "{}"}), 0)
			}
		}
	case 2: // maximal numeric fields
		g.submit(g.tx(st, MsgOp{T: "call", Svc: svc, Providers: []string{acctRef(st)}, Input: goodInput, FeeCap: "1stake", Timeout: math.MaxInt64, Repeated: true, Freq: 0, Total: math.MaxInt64}), 0)
	case 3: // huge qos
		g.submit(g.tx(st, MsgOp{T: "bind", Svc: svc, Prov: acctRef(st), Deposit: "1stake", Pricing: `{"price":"1stake"}`, QoS: math.MaxUint64, Options: "{}"}), 0)
	case 4: // deposit in an unknown denomination
		g.submit(g.tx(st, MsgOp{T: "bind", Svc: svc, Prov: acctRef(st), Deposit: "100foo", Pricing: `{"price":"1stake"}`, QoS: 1, Options: "{}"}), 0)
	case 5: // fee cap in an unknown denomination / empty
		g.submit(g.tx(st, MsgOp{T: "call", Svc: svc, Providers: []string{acctRef(st)}, Input: goodInput, FeeCap: pickStr(g, []string{"", "5foo", "1foo,1stake"}), Timeout: 1}), 0)
	case 6: // price in an unknown denomination, huge price
		g.submit(g.tx(st, MsgOp{T: "bind", Svc: svc, Prov: acctRef(st), Deposit: "6000stake", Pricing: pickStr(g, []string{`{"price":"1foo"}`, `{"price":"99999999999999999999999999999stake"}`, `{"price":"0.0000000000000000001stake"}`}), QoS: 1, Options: "{}"}), 0)
	case 7: // update / enable with two denominations
		if len(binds) > 0 {
			b := binds[g.pick(len(binds))]
			o := g.acctIndex(b.Owner)
			if o >= 0 {
				g.submit(g.tx(o, MsgOp{T: pickStr(g, []string{"update", "enable"}), Svc: b.ServiceName, Prov: refOfAddr(g, b.Provider), Deposit: "1foo,1stake", Options: "{}"}), 0)
			}
		}
	case 8: // context update with zero everything / maximal values
		ids := g.x.cur.CtxIDs()
		if len(ids) > 0 {
			id := ids[g.pick(len(ids))]
			c := g.x.cur.Ctx[id]
			o := g.acctIndex(c.Consumer)
			if o >= 0 {
				m := MsgOp{T: "updctx", Ctx: g.ctxRefFor(id)}
				if g.chance(0.5) {
					m.Total = math.MaxInt64
					m.Timeout = g.x.cur.Params.MaxRequestTimeout
					m.Freq = uint64(g.x.cur.Params.MaxRequestTimeout)
				}
				g.submit(g.tx(o, m), 0)
			}
		}
	case 9: // withdraw with nothing earned; provider never bound
		g.submit(g.tx(st, MsgOp{T: "withdraw", Prov: pickStr(g, []string{"", rawRef([]byte{0x01})})}), 0)
	case 10: // response with maximal-length-ish strings
		reqs := sortedBoolKeys(g.x.cur.Active15)
		if len(reqs) > 0 {
			rid := reqs[g.pick(len(reqs))]
			q := g.x.cur.Req[rid]
			if pi := g.acctIndex(q.Provider); pi >= 0 {
				g.submit(g.tx(pi, MsgOp{T: "respond", Req: "x:" + rid, Result: okResult, Output: `{"header":{},"body":{"k":"` + strings.Repeat("z", 2000) + `"}}`}), 0)
			}
		}
	case 11: // define with maximal tags / long strings
		var tags []string
		for i := 0; i < 10; i++ {
			tags = append(tags, strings.Repeat(string(rune('a'+i)), 70))
		}
		g.submit(g.tx(st, MsgOp{T: "define", Svc: pickStr(g, svcNamePool), Desc: strings.Repeat("d", 280), Tags: tags, Schemas: goodSchemas}), 0)
	}
}

// moduleAct: the foreign module creates contexts through the keeper API.
func (g *Gen) moduleAct() {
	svcs := g.definedSvcs()
	if len(svcs) == 0 {
		return
	}
	svc := pickStr(g, svcs)
	binds := g.bindingsOf(svc)
	if len(binds) == 0 {
		return
	}
	var provs []string
	for _, b := range binds {
		if g.chance(0.8) {
			provs = append(provs, refOfAddr(g, b.Provider))
		}
	}
	if len(provs) == 0 {
		provs = []string{refOfAddr(g, binds[0].Provider)}
	}
	consumer := pickInt(g, g.consumers)
	if g.faults["poor"] && g.chance(0.3) {
		consumer = g.poor
	}
	timeout := int64(1 + g.pick(int(minI64(g.x.cur.Params.MaxRequestTimeout, 4))))
	m := &ModOp{Label: g.label("m"), T: "create", Svc: svc, Providers: provs, Consumer: acctRef(consumer), Input: goodInput,
		FeeCap: "2000stake", Timeout: timeout, Threshold: uint32(1 + g.pick(len(provs)))}
	if g.chance(0.08) {
		m.Threshold = uint32(len(provs) + 1) // must be rejected
	}
	if g.chance(0.6) {
		m.Repeated = true
		m.Freq = uint64(timeout) + uint64(g.pick(3))
		m.Total = pickI64(g, []int64{1, 2, 3, -1})
	}
	if g.chance(0.2) {
		m.Paused = true
	}
	if g.chance(0.1) {
		m.Super = true
	}
	if g.chance(0.06) {
		m.Module = pickStr(g, []string{"halfresp", "halfstate", "nosuchmodule"}) // must be refused: not both callbacks registered
	}
	g.submit(Op{K: "mod", Mod: m}, 0)
	if m.Paused {
		g.submit(Op{K: "mod", Mod: &ModOp{Label: g.label("m"), T: "start", Ctx: ctxRefOf("mod-"+m.Label, 0), Consumer: m.Consumer}}, 1+g.pick(3))
	}
	if m.Repeated && len(provs) >= 2 && m.Module == "" && g.mrng.Float64() < 0.35 {
		// threshold squeeze: while a batch is in flight the module changes the response threshold, and one of the named
		// providers drops out, so that the next batch's eligible set lies between the old and the new threshold
		ref := ctxRefOf("mod-"+m.Label, 0)
		newThr := uint32(1 + g.mrng.Intn(len(provs)))
		if newThr == m.Threshold {
			newThr = m.Threshold%uint32(len(provs)) + 1
		}
		d := 1 + g.mrng.Intn(int(timeout))
		g.submit(Op{K: "mod", Mod: &ModOp{Label: g.label("m"), T: "update", Ctx: ref, Consumer: m.Consumer, Threshold: newThr}}, d)
		b := binds[g.mrng.Intn(len(binds))]
		if oi := g.acctIndex(b.Owner); oi >= 0 {
			g.submit(g.tx(oi, MsgOp{T: "disable", Svc: svc, Prov: refOfAddr(g, b.Provider)}), d+g.mrng.Intn(2))
		}
		g.x.stats.inc("targeted_threshold_squeeze")
	}
}

// burstAct: several contexts of one consumer with a tight budget become due at the same height, so that the order
// in which the end-blocker serves them decides who is paid for and who is paused (C06, C20).
func (g *Gen) burstAct() {
	svcs := g.definedSvcs()
	if len(svcs) == 0 {
		return
	}
	consumer := g.poor
	if g.chance(0.4) {
		consumer = g.consumers[0]
	}
	n := 2 + g.pick(3)
	var total int64
	sent := 0
	for i := 0; i < n; i++ {
		svc := pickStr(g, svcs)
		binds := g.bindingsOf(svc)
		if len(binds) == 0 {
			continue
		}
		b := binds[g.pick(len(binds))]
		var price int64 = 1
		if sp, ok := g.stakePrice(b.Pricing); ok && sp > 1 {
			price = sp
		}
		total += price
		if !b.Available || int64(b.QoS) > g.x.cur.Params.MaxRequestTimeout {
			continue
		}
		m := MsgOp{T: "call", Svc: svc, Providers: []string{refOfAddr(g, b.Provider)}, Input: goodInput, FeeCap: fmt.Sprintf("%dstake", price*2), Timeout: int64(b.QoS)}
		if g.chance(0.5) {
			m.Repeated, m.Total, m.Freq = true, int64(2+g.pick(2)), uint64(m.Timeout)
		}
		g.submit(g.tx(consumer, m), 0)
		sent++
	}
	if sent >= 2 {
		g.x.stats.inc("targeted_same_height_burst")
		// give the consumer enough for some of them, not all
		bal := g.x.cur.BalOf(acctAddr(consumer))
		want := total/2 + int64(g.pick(int(total/2)+1))
		if g.chance(0.3) {
			want = total // exactly enough for all of them
		}
		if bal < want && g.chance(0.7) {
			g.submit(g.tx(g.stranger, MsgOp{T: "send", To: acctRef(consumer), Amount: want - bal}), 0)
		}
	}
}

// stretchAct: scale dimensions. (1) long-lived contexts that get a batch every block (timeout = frequency = 1,
// no total) to a provider that always answers: batch counters and request volumes grow by one per block;
// (2) contexts naming as many providers as are bound (up to the maximum of 10); (3) many contexts expiring in one block;
// (4) repeated pause/start cycles of one context.
func (g *Gen) stretchAct() {
	svcs := g.definedSvcs()
	if len(svcs) == 0 {
		return
	}
	if g.longLived < 2 && g.block >= 3 && g.chance(0.3) {
		for _, svc := range svcs {
			for _, b := range g.bindingsOf(svc) {
				if b.Available && b.QoS == 1 && g.acctIndex(b.Provider) >= 0 {
					hp, err := ParseHPricing(b.Pricing)
					if err != nil || !hp.Base.IsInt64() || hp.Base.Int64() > 1000 {
						continue
					}
					c := g.consumers[g.longLived%len(g.consumers)]
					op := g.tx(c, MsgOp{T: "call", Svc: svc, Providers: []string{refOfAddr(g, b.Provider)}, Input: goodInput,
						FeeCap: fmt.Sprintf("%dstake", maxI64(1, hp.Base.Int64())), Timeout: 1, Repeated: true, Freq: 1, Total: -1})
					g.longLivedRefs[ctxRefOf(op.Tx.Label, 0)] = true
					g.submit(op, 0)
					g.longLived++
					g.x.stats.inc("probe_stretch_long_lived_context")
					return
				}
			}
		}
		// no suitable binding yet: make one
		owner := pickInt(g, g.owners)
		pricing := `{"price":"2stake","promotions_by_volume":[{"volume":3,"discount":"0.9"},{"volume":8,"discount":"0.8"},{"volume":12,"discount":"0.7"},{"volume":20,"discount":"0.6"},{"volume":40,"discount":"0.5"}]}`
		g.submit(g.tx(owner, MsgOp{T: "bind", Svc: pickStr(g, svcs), Prov: acctRef(pickInt(g, g.providers)), Deposit: fmt.Sprintf("%dstake", g.curMinDeposit(pricing)*3), Pricing: pricing, QoS: 1, Options: "{}"}), 0)
	}
	if g.chance(0.04) {
		// every bound provider of a service in one context
		svc := pickStr(g, svcs)
		var provs []string
		for _, b := range g.bindingsOf(svc) {
			provs = append(provs, refOfAddr(g, b.Provider))
		}
		if len(provs) >= 4 {
			if len(provs) > 10 {
				provs = provs[:10]
			}
			g.submit(g.tx(pickInt(g, g.consumers), MsgOp{T: "call", Svc: svc, Providers: provs, Input: goodInput, FeeCap: "20000000000000000stake", Timeout: int64(2 + g.pick(4)), Repeated: g.chance(0.5), Total: 3}), 0)
			g.x.stats.inc("probe_stretch_many_providers")
			if len(provs) == 10 {
				g.x.stats.inc("probe_stretch_ten_providers")
			}
		}
	}
	if g.chance(0.03) {
		// every provider account bound to one service, cheaply, so that contexts can name the maximum of 10 providers
		svc := pickStr(g, svcs)
		owner := pickInt(g, g.owners)
		pricing := `{"price":"1stake"}`
		dep := fmt.Sprintf("%dstake", g.curMinDeposit(pricing)*2)
		for _, pi := range g.providers {
			g.submit(g.tx(owner, MsgOp{T: "bind", Svc: svc, Prov: acctRef(pi), Deposit: dep, Pricing: pricing, QoS: 1, Options: "{}"}), 0)
		}
		g.x.stats.inc("probe_stretch_bind_all")
	}
	if g.useModule && g.chance(0.04) {
		// a module-owned context naming all (up to 10) providers of a service, threshold at or just below their number
		svc := pickStr(g, svcs)
		var provs []string
		for _, b := range g.bindingsOf(svc) {
			if b.Available && (g.acctIndex(b.Provider) >= 0 || g.rawResponders) {
				provs = append(provs, refOfAddr(g, b.Provider))
			}
		}
		if len(provs) >= 6 {
			if len(provs) > 10 {
				provs = provs[:10]
			}
			thr := uint32(len(provs) - g.pick(2))
			mo := &ModOp{Label: g.label("m"), T: "create", Svc: svc, Providers: provs, Consumer: acctRef(pickInt(g, g.consumers)), Input: goodInput,
				FeeCap: "20000000000000000stake", Timeout: int64(2 + g.pick(3)), Threshold: thr, Repeated: g.chance(0.5), Freq: 0, Total: 3}
			g.submit(Op{K: "mod", Mod: mo}, 0)
			// its providers answer reliably, so that a batch with nine or ten outputs really happens
			g.longLivedRefs[ctxRefOf("mod-"+mo.Label, 0)] = true
			g.x.stats.inc("probe_stretch_module_many_providers")
		}
	}
	if g.chance(0.004) && g.block < g.nBlocks-40 {
		// a flood: well over a hundred one-shot requests pending on one binding at the same time
		svc := pickStr(g, svcs)
		for _, b := range g.bindingsOf(svc) {
			if b.Available && int64(b.QoS) <= 30 && g.x.cur.Params.MaxRequestTimeout >= 30 {
				for i := 0; i < 110+g.pick(30); i++ {
					g.submit(g.tx(g.consumers[i%len(g.consumers)], MsgOp{T: "call", Svc: svc, Providers: []string{refOfAddr(g, b.Provider)}, Input: goodInput, FeeCap: "20000000000000000stake", Timeout: 30}), i/40)
				}
				g.x.stats.inc("probe_stretch_flood")
				break
			}
		}
	}
	if g.chance(0.03) {
		// a dozen or two one-shot contexts in one block with the same timeout: they all start, and all expire, together
		svc := pickStr(g, svcs)
		binds := g.bindingsOf(svc)
		if len(binds) > 0 {
			t := int64(1 + g.pick(3))
			for i := 0; i < 9+g.pick(16); i++ {
				b := binds[g.pick(len(binds))]
				g.submit(g.tx(g.consumers[i%len(g.consumers)], MsgOp{T: "call", Svc: svc, Providers: []string{refOfAddr(g, b.Provider)}, Input: goodInput, FeeCap: "20000000000000000stake", Timeout: t}), 0)
			}
			g.x.stats.inc("probe_stretch_mass_expiry")
		}
	}
	if g.chance(0.05) {
		// pause/start cycles of one repeated context
		s := g.x.cur
		for _, id := range s.CtxIDs() {
			c := s.Ctx[id]
			if c.Repeated && c.State == types.RUNNING && c.ModuleName == "" {
				if o := g.acctIndex(c.Consumer); o >= 0 {
					ref := g.ctxRefFor(id)
					for k := 0; k < 4; k++ {
						g.submit(g.tx(o, MsgOp{T: "pause", Ctx: ref}), 2*k)
						g.submit(g.tx(o, MsgOp{T: "start", Ctx: ref}), 2*k+1)
					}
					g.x.stats.inc("probe_stretch_pause_start_cycles")
				}
				break
			}
		}
	}
}

// whaleAct: an owner with a balance beyond 2^63 binds with deposits of 10^19 and more and tops them up; requests to
// those bindings are left to expire or answered badly, so that slashing computes on amounts that do not fit 64 bits.
func (g *Gen) whaleAct() {
	svcs := g.definedSvcs()
	if len(svcs) == 0 {
		return
	}
	w := g.cfg.WhaleAccount
	svc := pickStr(g, svcs)
	prov := acctRef(pickInt(g, g.providers))
	g.x.stats.inc("probe_whale_action")
	switch g.pick(4) {
	case 0, 1:
		g.submit(g.tx(w, MsgOp{T: "bind", Svc: svc, Prov: prov, Deposit: pickStr(g, []string{"10000000000000000000stake", "9223372036854775808stake", "36893488147419103232stake"}), Pricing: `{"price":"1stake"}`, QoS: 1, Options: "{}"}), 0)
	case 2:
		for _, b := range g.allBindings() {
			if bytes.Equal(b.Owner, acctAddr(w)) {
				g.submit(g.tx(w, MsgOp{T: "update", Svc: b.ServiceName, Prov: refOfAddr(g, b.Provider), Deposit: "9223372036854775807stake", Options: "{}"}), 0)
				break
			}
		}
	case 3:
		// a consumer calls the whale's bindings (nobody may answer: expiry slashes)
		for _, b := range g.allBindings() {
			if bytes.Equal(b.Owner, acctAddr(w)) && b.Available {
				g.submit(g.tx(pickInt(g, g.consumers), MsgOp{T: "call", Svc: b.ServiceName, Providers: []string{refOfAddr(g, b.Provider)}, Input: goodInput, FeeCap: "5stake", Timeout: 1, Repeated: true, Freq: 1, Total: 3}), 0)
				break
			}
		}
	}
}
