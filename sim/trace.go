package main

import (
	"encoding/json"
	"io/ioutil"
	"time"
)

// Trace is the replay file: configuration + exact op list + expected verdict.
type Trace struct {
	Config *Config `json:"config"`
	Ops    []Op    `json:"ops"`
	Finish bool    `json:"finish"` // whether the history rules (after drain) are evaluated
	Expect *Violation `json:"expect,omitempty"`
	Note   string  `json:"note,omitempty"`
	// SplitCut > 0: the trace is a C20 process-restart case: execute ops[0:SplitCut] in one fresh process, the rest in another
	SplitCut int `json:"split_cut,omitempty"`
}

func (t *Trace) Save(path string) error {
	b, err := json.MarshalIndent(t, "", " ")
	if err != nil {
		return err
	}
	return ioutil.WriteFile(path, b, 0644)
}

func LoadTrace(path string) (*Trace, error) {
	b, err := ioutil.ReadFile(path)
	if err != nil {
		return nil, err
	}
	var t Trace
	if err := json.Unmarshal(b, &t); err != nil {
		return nil, err
	}
	return &t, nil
}

// RunResult of executing a trace.
type RunResult struct {
	Violations []Violation
	Stats      *RunStats
	Digest     string
	Log        []string
	Steps      int
}

// ExecTrace runs a trace through the executor (used by replay and the minimiser).
func ExecTrace(t *Trace, keepLog bool) (res *RunResult) {
	x := NewExec(t.Config)
	x.keepLog = keepLog
	for i := range t.Ops {
		if !x.Apply(&t.Ops[i], i) {
			break
		}
	}
	if t.Finish {
		x.Finish()
	}
	return &RunResult{Violations: x.violations, Stats: x.stats, Digest: x.cur.Digest(), Log: x.log, Steps: x.steps}
}

// firstArmed returns the first violation of the armed property (or any if property is ALL).
func firstArmed(cfg *Config, vs []Violation) *Violation {
	for i := range vs {
		if cfg.Property == "ALL" || vs[i].Property == cfg.Property {
			return &vs[i]
		}
	}
	return nil
}

// Minimise shrinks the op list by delta debugging while the same property and rule (and attributes) fire.
func Minimise(t *Trace, want *Violation, budget time.Duration) *Trace {
	deadline := time.Now().Add(budget)
	sig := want.Sig()
	tries := 1
	if flakyByNature(want) {
		tries = 4
	}
	test := func(ops []Op) bool {
		c := &Trace{Config: t.Config, Ops: ops, Finish: t.Finish}
		r := safeExecTries(c, tries)
		if r == nil {
			return false
		}
		v := firstArmed(t.Config, r.Violations)
		return v != nil && v.Sig() == sig
	}
	ops := append([]Op{}, t.Ops...)
	// 1. drop everything after the violating op (unless the violation comes from the history rules)
	if !t.Finish || want.OpIndex < len(ops)-1 {
		cut := ops[:minInt(len(ops), want.OpIndex+1)]
		// close the block so that EndBlock-rules can still fire
		if test(cut) {
			ops = cut
		}
	}
	// 2. block-level removal, then op-level ddmin
	blocks := func(ops []Op) [][2]int {
		var out [][2]int
		start := -1
		for i, o := range ops {
			if o.K == "begin" {
				start = i
			}
			if o.K == "end" && start >= 0 {
				out = append(out, [2]int{start, i + 1})
				start = -1
			}
		}
		return out
	}
	// whole blocks first, from the last to the first (cheap, removes most of a trace)
	for pass := 0; pass < 2 && time.Now().Before(deadline); pass++ {
		bl := blocks(ops)
		for i := len(bl) - 1; i >= 0 && time.Now().Before(deadline); i-- {
			cand := append(append([]Op{}, ops[:bl[i][0]]...), ops[bl[i][1]:]...)
			if len(cand) > 0 && test(cand) {
				ops = cand
			}
		}
	}
	// then every single op inside the remaining blocks except begin/end
	for i := len(ops) - 1; i >= 0 && time.Now().Before(deadline); i-- {
		if i >= len(ops) || ops[i].K == "begin" || ops[i].K == "end" {
			continue
		}
		cand := append(append([]Op{}, ops[:i]...), ops[i+1:]...)
		if test(cand) {
			ops = cand
		}
	}
	n := 2
	for len(ops) >= 2 && time.Now().Before(deadline) {
		chunk := (len(ops) + n - 1) / n
		reduced := false
		for i := 0; i < len(ops) && time.Now().Before(deadline); i += chunk {
			j := minInt(i+chunk, len(ops))
			cand := append(append([]Op{}, ops[:i]...), ops[j:]...)
			if len(cand) > 0 && test(cand) {
				ops = cand
				n = maxInt(n-1, 2)
				reduced = true
				break
			}
		}
		if !reduced {
			if chunk == 1 {
				break
			}
			n = minInt(n*2, len(ops))
		}
	}
	// 3. simplify multi-msg txs: drop msgs
	for i := range ops {
		if !time.Now().Before(deadline) {
			break
		}
		if ops[i].K == "tx" && len(ops[i].Tx.Msgs) > 1 {
			for k := 0; k < len(ops[i].Tx.Msgs) && len(ops[i].Tx.Msgs) > 1; {
				cand := append([]Op{}, ops...)
				tx := *ops[i].Tx
				tx.Msgs = append(append([]MsgOp{}, ops[i].Tx.Msgs[:k]...), ops[i].Tx.Msgs[k+1:]...)
				cand[i].Tx = &tx
				if test(cand) {
					ops = cand
				} else {
					k++
				}
			}
		}
	}
	// 4. drop replicas if not needed
	out := &Trace{Config: t.Config, Ops: ops, Finish: t.Finish}
	r := safeExecTries(out, tries*3)
	if r != nil {
		if v := firstArmed(t.Config, r.Violations); v != nil {
			out.Expect = v
		}
	}
	return out
}

func maxInt(a, b int) int {
	if a > b {
		return a
	}
	return b
}

// flakyByNature: violations whose very content is nondeterminism of the code under test (two executions of the same
// trace disagree). One execution may happen to agree, so reproduction is attempted several times.
func flakyByNature(v *Violation) bool {
	return v != nil && v.Property == "C20" && (v.Rule == "replica_divergence" || v.Rule == "apphash_divergence" || v.Rule == "crash_replay_divergence")
}

// safeExecTries executes the trace up to n times and returns the first result that violates the armed property
// (or the last result).
func safeExecTries(t *Trace, n int) *RunResult {
	var r *RunResult
	for i := 0; i < n; i++ {
		r = safeExec(t)
		if r != nil && firstArmed(t.Config, r.Violations) != nil {
			return r
		}
	}
	return r
}

func safeExec(t *Trace) (r *RunResult) {
	defer func() {
		if e := recover(); e != nil {
			r = nil
		}
	}()
	// deep-copy ops through JSON so that executions never share mutable op state
	b, _ := json.Marshal(t)
	var c Trace
	if err := json.Unmarshal(b, &c); err != nil {
		return nil
	}
	return ExecTrace(&c, false)
}
