package main

import (
	"encoding/json"
	"flag"
	"fmt"
	"os"
	"time"
)

func usage() {
	fmt.Fprintln(os.Stderr, `usage: svcsim <command>
  run    -prop C01 -seed 1 -run 0 [-thorough] [-v] [-save file]   one run (debugging)
  worker -prop C01 -seed 1 -from 0 -to 50 [-thorough]             runs [from,to), JSON lines on stdout
  check  <property> <quick|thorough>                              the registered check
  replay <file>                                                   replay a trace file
  selftest-determinism [-n 64]`)
	os.Exit(2)
}

func main() {
	if len(os.Args) < 2 {
		usage()
	}
	switch os.Args[1] {
	case "run":
		cmdRun(os.Args[2:])
	case "worker":
		cmdWorker(os.Args[2:])
	case "check":
		cmdCheck(os.Args[2:])
	case "replay":
		cmdReplay(os.Args[2:])
	case "selftest-determinism":
		cmdSelfDet(os.Args[2:])
	default:
		usage()
	}
}

// oneRun generates and executes run #run; returns the generator (trace, executor).
func oneRun(seed int64, prop string, run int, thorough bool, keepLog bool) (g *Gen, panicked interface{}) {
	g = NewGen(seed, prop, run, thorough)
	g.x.keepLog = keepLog
	g.Run()
	return g, nil
}

func cmdRun(args []string) {
	fs := flag.NewFlagSet("run", flag.ExitOnError)
	prop := fs.String("prop", "C01", "")
	seed := fs.Int64("seed", 1, "")
	run := fs.Int("run", 0, "")
	thorough := fs.Bool("thorough", false, "")
	verbose := fs.Bool("v", false, "")
	save := fs.String("save", "", "")
	fs.Parse(args)
	t0 := time.Now()
	g, _ := oneRun(*seed, *prop, *run, *thorough, *verbose)
	if *verbose {
		for _, l := range g.x.log {
			fmt.Println(l)
		}
	}
	fmt.Printf("run %d: ops=%d steps=%d blocks=%d txs=%d wall=%v digest=%s\n", *run, len(g.ops), g.x.stats.Steps, g.x.stats.Blocks, g.x.stats.Txs, time.Since(t0), g.x.cur.Digest()[:16])
	for _, k := range sortedIntKeys(g.x.stats.C) {
		fmt.Printf("  %s=%d\n", k, g.x.stats.C[k])
	}
	for _, v := range g.x.violations {
		b, _ := json.Marshal(v)
		fmt.Println("VIOL", string(b))
	}
	if *save != "" {
		tr := &Trace{Config: g.cfg, Ops: g.ops, Finish: g.x.finished}
		if v := firstArmed(g.cfg, g.x.violations); v != nil {
			tr.Expect = v
		}
		if err := tr.Save(*save); err != nil {
			fmt.Fprintln(os.Stderr, err)
			os.Exit(2)
		}
	}
}

func cmdReplay(args []string) {
	if len(args) < 1 {
		usage()
	}
	t, err := LoadTrace(args[0])
	if err != nil {
		fmt.Fprintln(os.Stderr, "cannot load trace:", err)
		os.Exit(2)
	}
	r := ExecTrace(t, len(args) > 1 && args[1] == "-v")
	for _, l := range r.Log {
		fmt.Println(l)
	}
	v := firstArmed(t.Config, r.Violations)
	if v == nil {
		fmt.Printf("REPLAY property=%s result=no-violation steps=%d digest=%s\n", t.Config.Property, r.Steps, r.Digest[:16])
		if t.Expect != nil {
			fmt.Printf("REPLAY expected %s but the trace no longer violates it\n", t.Expect.Sig())
		}
		os.Exit(0)
	}
	b, _ := json.Marshal(v)
	fmt.Printf("REPLAY property=%s result=violation sig=%s\n%s\n", v.Property, v.Sig(), string(b))
	if t.Expect != nil && t.Expect.Sig() != v.Sig() {
		fmt.Printf("REPLAY note: expected signature %s\n", t.Expect.Sig())
	}
	fmt.Printf("VIOLATION property=%s replay=%s\n", v.Property, args[0])
	os.Exit(1)
}

func cmdSelfDet(args []string) {}
