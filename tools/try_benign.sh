#!/bin/bash
# usage: tools/try_benign.sh <patch.diff> [runs]  — apply a behaviour-preserving change to /repo, run ALL quick checks (reduced size), undo.
# Any VIOLATION here is a false alarm of the machinery (or the change is not behaviour-preserving after all).
set -u
patch="$1"; runs="${2:-300}"
cd /repo || exit 3
if ! git diff --quiet; then echo "/repo has uncommitted changes; refusing" >&2; exit 3; fi
git apply "$patch" || { echo "patch does not apply" >&2; exit 3; }
trap 'cd /repo && git apply -R "'"$patch"'" 2>/dev/null; git -C /repo checkout -- . ' EXIT
cd /verif
for p in C01 C02 C03 C04 C05 C06 C07 C08 C09 C10 C11 C12 C13 C14 C15 C16 C17 C18 C19 C20; do
  r=$runs; [ $p = C17 ] && r=$((runs/3))
  out=$(VERIF_RUNS=$r ./check.sh $p quick 2>&1); rc=$?
  echo "$p rc=$rc $(echo "$out" | grep -E '^violation|INTERNAL' | head -2 | cut -c1-300)"
done
