package main

// Symbolic operations: the replay file is a Config plus a list of Ops. The executor is a pure
// function of (Config, []Op, code under test); no randomness, no wall clock.

import (
	"crypto/sha256"
	"encoding/hex"
	"fmt"
	"strconv"
	"strings"
)

// Config is the per-run (swarm) configuration; everything the executor needs besides the ops.
type Config struct {
	Property string `json:"property"`
	Seed     int64  `json:"seed"`
	Run      int    `json:"run"`

	NAccounts     int     `json:"n_accounts"`
	Balances      []int64 `json:"balances"` // initial stake per account
	InitialHeight int64   `json:"initial_height"`
	GenesisTime   int64   `json:"genesis_time"` // unix seconds

	// service params
	MaxRequestTimeout  int64  `json:"max_request_timeout"`
	MinDepositMultiple int64  `json:"min_deposit_multiple"`
	MinDeposit         int64  `json:"min_deposit"`
	ServiceFeeTax      string `json:"service_fee_tax"`
	SlashFraction      string `json:"slash_fraction"`
	ArbitrationNs      int64  `json:"arbitration_ns"`
	ComplaintNs        int64  `json:"complaint_ns"`

	// WhaleAccount >= 0: that account starts with WhaleBalance (a decimal string above 2^63) instead of Balances[i]; the
	// harness then tracks balances saturating at MaxInt64 (only the C20 profile uses it: replicas and panics, no money oracle)
	WhaleAccount int    `json:"whale_account"`
	WhaleBalance string `json:"whale_balance,omitempty"`

	ModuleService bool `json:"module_service"` // register the reserved module service + genesis def/binding
	// MultiToken: plug the harness's token table (stake, gold/ugold scale 3, silver) into the keeper's TokenKeeper seam and
	// serve exchange rates from Rates (pair "<min unit>-stake" -> decimal) through the "oracle" module service (implies
	// the module-service registration and its genesis records)
	SysPrice   string            `json:"sys_price,omitempty"` // price text of the module's system binding in the genesis (default: the built-in 0stake)
	MultiToken bool              `json:"multi_token,omitempty"`
	Rates      map[string]string `json:"rates,omitempty"`
	Replicas      int  `json:"replicas"`       // >=1
	DrainBlocks   int  `json:"drain_blocks"`   // fault-free blocks appended by the executor at the end
}

// Op is one step of a trace.
type Op struct {
	K string `json:"k"` // begin | tx | mod | end | commit | crash | params | probe | expcont | query

	T int64 `json:"t,omitempty"` // begin: absolute offset from genesis time, ns

	Tx  *TxOp     `json:"tx,omitempty"`
	Mod *ModOp    `json:"mod,omitempty"`
	Par *ParamsOp `json:"par,omitempty"`

	Replica int `json:"replica,omitempty"` // crash: which replica (0 = primary replays its own block)

	// rate: the exchange-rate feed changes (multi-token runs): Pair "<min unit>-stake", Rate a decimal, "" (no value),
	// "!body" (malformed reply) or "!nan" (not a number)
	Pair string `json:"pair,omitempty"`
	Rate string `json:"rate,omitempty"`

	// expcont: the chain restarted from the exported genesis runs a binary without the foreign module (its callbacks are
	// not registered); from then on the executor ignores "mod" ops — there is no such module to act
	NoForeign bool `json:"no_foreign,omitempty"`
}

// TxOp is one transaction: all msgs signed by Sender.
type TxOp struct {
	Label  string  `json:"label"` // tx hash = sha256(label) unless Hash is given
	Sender string  `json:"sender"`
	Msgs   []MsgOp `json:"msgs"`
	Gas    uint64  `json:"gas,omitempty"`  // 0 = infinite
	Hash   string  `json:"hash,omitempty"` // hex, 32 bytes
	// MsgIndexBase lets the host supply boundary msg indexes (H2 only demands position semantics for
	// single-msg txs; for C18 boundary values the host may offset it).
	MsgIndexBase int64 `json:"msg_index_base,omitempty"`
}

// MsgOp is a symbolic message.
type MsgOp struct {
	T string `json:"t"` // define bind update setwd disable enable refund call respond pause start kill updctx withdraw send

	Signer string `json:"signer,omitempty"` // declared signer field of the msg; default = tx sender

	Svc     string `json:"svc,omitempty"`
	Prov    string `json:"prov,omitempty"`    // address ref
	Deposit string `json:"deposit,omitempty"` // coins string, "" = empty
	Pricing string `json:"pricing,omitempty"`
	QoS     uint64 `json:"qos,omitempty"`
	Options string `json:"options,omitempty"`

	Desc    string   `json:"desc,omitempty"`
	Tags    []string `json:"tags,omitempty"`
	Schemas string   `json:"schemas,omitempty"`

	Providers []string `json:"providers,omitempty"`
	Input     string   `json:"input,omitempty"`
	FeeCap    string   `json:"fee_cap,omitempty"`
	Timeout   int64    `json:"timeout,omitempty"`
	Super     bool     `json:"super,omitempty"`
	Repeated  bool     `json:"repeated,omitempty"`
	Freq      uint64   `json:"freq,omitempty"`
	Total     int64    `json:"total,omitempty"`

	Ctx string `json:"ctx,omitempty"` // context ref: label of creating op ("L:<label>#<msgidx>") or "x:<hex>"
	Req string `json:"req,omitempty"` // request ref: "<ctxref>|<batch>|<provider ref>" or "x:<hex>"

	Result string `json:"result,omitempty"`
	Output string `json:"output,omitempty"`

	To     string `json:"to,omitempty"`
	Amount int64  `json:"amount,omitempty"`
}

// ModOp is an operation of the foreign module "verifmod" through the keeper API.
type ModOp struct {
	Label string `json:"label"`
	T     string `json:"t"` // create start pause kill update
	// create
	Svc       string   `json:"svc,omitempty"`
	Providers []string `json:"providers,omitempty"`
	Consumer  string   `json:"consumer,omitempty"`
	Input     string   `json:"input,omitempty"`
	FeeCap    string   `json:"fee_cap,omitempty"`
	Timeout   int64    `json:"timeout,omitempty"`
	Super     bool     `json:"super,omitempty"`
	Repeated  bool     `json:"repeated,omitempty"`
	Freq      uint64   `json:"freq,omitempty"`
	Total     int64    `json:"total,omitempty"`
	Paused    bool     `json:"paused,omitempty"` // initial state PAUSED
	Threshold uint32   `json:"threshold,omitempty"`
	Module    string   `json:"module,omitempty"` // module name passed; default verifmod
	// others
	Ctx string `json:"ctx,omitempty"`
}

// ParamsOp changes governance parameters between blocks.
type ParamsOp struct {
	ServiceFeeTax     string `json:"service_fee_tax,omitempty"`
	SlashFraction     string `json:"slash_fraction,omitempty"`
	MaxRequestTimeout int64  `json:"max_request_timeout,omitempty"`
	ArbitrationNs     int64  `json:"arbitration_ns,omitempty"`
	ComplaintNs       int64  `json:"complaint_ns,omitempty"`
	// deposit parameters: only the C14 profile changes them (DESIGN §4 F12, §10.6)
	MinDeposit         int64 `json:"min_deposit,omitempty"`
	MinDepositMultiple int64 `json:"min_deposit_multiple,omitempty"`
	// MinDepositDenom: a minimum deposit in another denomination than the base one (legal for the parameter; only the
	// C20 profile uses it, no money oracle is armed there)
	MinDepositDenom string `json:"min_deposit_denom,omitempty"`
}

// ---- address references ---------------------------------------------------------------------

// "a<i>"  key-holding 20-byte account i
// "x:<hex>" raw bytes (non-signing address of any length)
// "m:<name>" module account
func acctAddr(i int) []byte {
	h := sha256.Sum256([]byte("verif-acct-" + strconv.Itoa(i)))
	return h[:20]
}

func acctRef(i int) string { return "a" + strconv.Itoa(i) }
func rawRef(b []byte) string { return "x:" + hex.EncodeToString(b) }

func parseAcctRef(ref string) (int, bool) {
	if len(ref) < 2 || ref[0] != 'a' {
		return 0, false
	}
	n, err := strconv.Atoi(ref[1:])
	if err != nil {
		return 0, false
	}
	return n, true
}

func txHashOf(tx *TxOp) []byte {
	if tx.Hash != "" {
		b, err := hex.DecodeString(tx.Hash)
		if err == nil && len(b) == 32 {
			return b
		}
	}
	h := sha256.Sum256([]byte("verif-tx-" + tx.Label))
	return h[:]
}

func ctxRefOf(label string, msgIdx int) string { return fmt.Sprintf("L:%s#%d", label, msgIdx) }

func reqRefOf(ctxRef string, batch uint64, provRef string) string {
	return fmt.Sprintf("%s|%d|%s", ctxRef, batch, provRef)
}

func splitReqRef(ref string) (ctxRef string, batch uint64, provRef string, ok bool) {
	parts := strings.Split(ref, "|")
	if len(parts) != 3 {
		return "", 0, "", false
	}
	b, err := strconv.ParseUint(parts[1], 10, 64)
	if err != nil {
		return "", 0, "", false
	}
	return parts[0], b, parts[2], true
}
