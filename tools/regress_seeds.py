#!/usr/bin/env python3
"""Re-checks recorded seeded changes against the current harness and tree (scratch worktrees, /repo untouched).
usage: regress_seeds.py [--update] id ...   — prints one line per seed; with --update rewrites the detection fields of meta.json."""
import json, os, re, subprocess, sys
upd = "--update" in sys.argv
ids = [a for a in sys.argv[1:] if not a.startswith("--")]
for sid in ids:
    d = f"/verif/seeded/{sid}"; m = json.load(open(f"{d}/meta.json")); prop = m["property"]
    p = subprocess.run(["/verif/tools/try_patch_scratch.sh", f"{d}/patch.diff", prop, "1200"], capture_output=True, text=True, errors="replace")
    out = p.stdout + p.stderr
    if "does not apply" in out:
        print(sid, prop, "NOAPPLY", flush=True); continue
    ex = [l for l in out.splitlines() if l.startswith("exit=")][-1:]
    if ex == ["exit=2"]:
        print(sid, prop, "HARNESS-TROUBLE", out[-300:].replace("\n", " | "), flush=True); continue
    viol = [l for l in out.splitlines() if l.startswith("violation:")]
    rules = sorted({v.split()[1].rstrip(':').split(';')[0] for v in viol})
    runs = re.search(r"runs=(\d+).*wall=([\d.]+)s", out)
    print(sid, prop, "DETECTED" if viol else "MISSED", rules, runs.group(1) if runs else None, flush=True)
    if upd:
        m.update({"detected": bool(viol), "detected_by_rules": rules, "first_violation": viol[0][:600] if viol else None,
                  "runs_until_stop": int(runs.group(1)) if runs else None, "wall_s": float(runs.group(2)) if runs else None, "exit_code_line": ex,
                  "rechecked": "session 3 (2026-10-03), tree f6ad253, tools/regress_seeds.py"})
        json.dump(m, open(f"{d}/meta.json", "w"), indent=1)
