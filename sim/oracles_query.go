package main

// Oracle C17: every query, on both routes, returns exactly the stored state.
// In-block: the gRPC server methods and the legacy querier are called directly on the block's context.
// After Commit: the real BaseApp.Query entry point on both routes (/irismod.service.Query/* and custom/service/*).

import (
	"bytes"
	"fmt"
	"sort"

	"github.com/gogo/protobuf/proto"
	abci "github.com/tendermint/tendermint/abci/types"
	tmbytes "github.com/tendermint/tendermint/libs/bytes"

	"github.com/cosmos/cosmos-sdk/codec"
	sdk "github.com/cosmos/cosmos-sdk/types"

	"github.com/irismod/service/keeper"
	"github.com/irismod/service/types"
)

func init() {
	oracleTable["C17"] = oracleC17
}

type qcase struct {
	name       string
	grpcPath   string
	grpcReq    proto.Message
	grpcResp   func() proto.Message
	grpcCanon  func(proto.Message) []string
	direct     func(k keeper.Keeper, ctx sdk.Context) (proto.Message, error)
	legacyPath string
	legacyPar  interface{}
	legacyCanon func(cdc *codec.LegacyAmino, bz []byte) ([]string, error)
	want       []string // nil = an error is expected
	wantErr    bool
	desc       string
}

func pm(m interface{ Marshal() ([]byte, error) }) string {
	bz, err := m.Marshal()
	if err != nil {
		return "MARSHAL-ERR"
	}
	return string(bz)
}

func buildRequest(s *Snap, rid string) *types.Request {
	q, ok := s.Req[rid]
	if !ok {
		return &types.Request{}
	}
	c, ok := s.Ctx[hx(q.RequestContextId)]
	if !ok {
		return &types.Request{}
	}
	idb, _ := hexDecode(rid)
	return &types.Request{Id: idb, ServiceName: c.ServiceName, Provider: q.Provider, Consumer: c.Consumer, Input: c.Input, ServiceFee: q.ServiceFee,
		SuperMode: c.SuperMode, RequestHeight: q.RequestHeight, ExpirationHeight: q.ExpirationHeight, RequestContextId: q.RequestContextId,
		RequestContextBatchCounter: q.RequestContextBatchCounter}
}

func sortedCopy(s []string) []string {
	o := append([]string{}, s...)
	sort.Strings(o)
	return o
}

// queryCases: arguments drawn from the existing and non-existing subjects of the state.
func (x *Exec) queryCases(s *Snap) []qcase {
	var cs []qcase
	names := append(sortedDefNames(s), "nosuch", "a")
	names = dedup(names)
	provSet := map[string]bool{hx([]byte{0x01}): true, hx(acctAddr(0)): true}
	ownerSet := map[string]bool{hx(acctAddr(1)): true}
	for _, bk := range s.BindingKeys() {
		b := s.Bindings[bk]
		provSet[hx(b.Provider)] = true
		ownerSet[hx(b.Owner)] = true
	}
	for o := range s.Withdraw {
		ownerSet[o] = true
	}
	provs := sortedKeys(provSet)
	owners := sortedKeys(ownerSet)

	// limit the cross products deterministically
	limit := func(l []string, n int, salt int) []string {
		if len(l) <= n {
			return l
		}
		out := []string{}
		for i := 0; i < n; i++ {
			out = append(out, l[(salt+i*7)%len(l)])
		}
		return dedup(out)
	}
	salt := int(s.Height % 1000)

	for _, n := range names {
		n := n
		c := qcase{name: "definition", desc: n, grpcPath: "/irismod.service.Query/Definition", grpcReq: &types.QueryDefinitionRequest{ServiceName: n},
			grpcResp:  func() proto.Message { return &types.QueryDefinitionResponse{} },
			grpcCanon: func(m proto.Message) []string { return []string{pm(m.(*types.QueryDefinitionResponse).ServiceDefinition)} },
			direct: func(k keeper.Keeper, ctx sdk.Context) (proto.Message, error) {
				return k.Definition(sdk.WrapSDKContext(ctx), &types.QueryDefinitionRequest{ServiceName: n})
			},
			legacyPath: types.QueryDefinition, legacyPar: types.QueryDefinitionParams{ServiceName: n},
			legacyCanon: func(cdc *codec.LegacyAmino, bz []byte) ([]string, error) {
				var d types.ServiceDefinition
				if err := cdc.UnmarshalJSON(bz, &d); err != nil {
					return nil, err
				}
				return []string{pm(&d)}, nil
			}}
		if d, ok := s.Defs[n]; ok {
			c.want = []string{pm(d)}
		} else {
			c.wantErr = true
		}
		cs = append(cs, c)
	}
	for _, n := range limit(names, 3, salt) {
		for _, ph := range limit(provs, 4, salt) {
			n, ph := n, ph
			pb, _ := hexDecode(ph)
			c := qcase{name: "binding", desc: n + "/" + ph, grpcPath: "/irismod.service.Query/Binding", grpcReq: &types.QueryBindingRequest{ServiceName: n, Provider: pb},
				grpcResp:  func() proto.Message { return &types.QueryBindingResponse{} },
				grpcCanon: func(m proto.Message) []string { return []string{pm(m.(*types.QueryBindingResponse).ServiceBinding)} },
				direct: func(k keeper.Keeper, ctx sdk.Context) (proto.Message, error) {
					return k.Binding(sdk.WrapSDKContext(ctx), &types.QueryBindingRequest{ServiceName: n, Provider: pb})
				},
				legacyPath: types.QueryBinding, legacyPar: types.QueryBindingParams{ServiceName: n, Provider: pb},
				legacyCanon: func(cdc *codec.LegacyAmino, bz []byte) ([]string, error) {
					var d types.ServiceBinding
					if err := cdc.UnmarshalJSON(bz, &d); err != nil {
						return nil, err
					}
					return []string{pm(&d)}, nil
				}}
			if b, ok := s.Bindings[bkey(n, pb)]; ok {
				c.want = []string{pm(b)}
			} else {
				c.wantErr = true
			}
			cs = append(cs, c)

			// pending requests of a binding
			c2 := qcase{name: "requests", desc: n + "/" + ph, grpcPath: "/irismod.service.Query/Requests", grpcReq: &types.QueryRequestsRequest{ServiceName: n, Provider: pb},
				grpcResp: func() proto.Message { return &types.QueryRequestsResponse{} },
				grpcCanon: func(m proto.Message) []string {
					var out []string
					for _, q := range m.(*types.QueryRequestsResponse).Requests {
						out = append(out, pm(q))
					}
					return out
				},
				direct: func(k keeper.Keeper, ctx sdk.Context) (proto.Message, error) {
					return k.Requests(sdk.WrapSDKContext(ctx), &types.QueryRequestsRequest{ServiceName: n, Provider: pb})
				},
				legacyPath: types.QueryRequests, legacyPar: types.QueryRequestsParams{ServiceName: n, Provider: pb},
				legacyCanon: canonRequests}
			bech := sdk.AccAddress(pb).String()
			c2.want = []string{}
			for _, a := range s.Active14 {
				if a.Svc == n && a.Prov == bech {
					c2.want = append(c2.want, pm(buildRequest(s, a.ReqID)))
				}
			}
			cs = append(cs, c2)
		}
		for _, oh := range append(limit(owners, 3, salt), "") {
			n, oh := n, oh
			ob, _ := hexDecode(oh)
			if oh != "" && len(ob) != 20 {
				continue
			}
			c := qcase{name: "bindings", desc: n + "/" + oh, grpcPath: "/irismod.service.Query/Bindings", grpcReq: &types.QueryBindingsRequest{ServiceName: n, Owner: ob},
				grpcResp: func() proto.Message { return &types.QueryBindingsResponse{} },
				grpcCanon: func(m proto.Message) []string {
					var out []string
					for _, b := range m.(*types.QueryBindingsResponse).ServiceBindings {
						out = append(out, pm(b))
					}
					return out
				},
				direct: func(k keeper.Keeper, ctx sdk.Context) (proto.Message, error) {
					return k.Bindings(sdk.WrapSDKContext(ctx), &types.QueryBindingsRequest{ServiceName: n, Owner: ob})
				},
				legacyPath: types.QueryBindings, legacyPar: types.QueryBindingsParams{ServiceName: n, Owner: ob},
				legacyCanon: func(cdc *codec.LegacyAmino, bz []byte) ([]string, error) {
					var d []*types.ServiceBinding
					if err := cdc.UnmarshalJSON(bz, &d); err != nil {
						return nil, err
					}
					var out []string
					for _, b := range d {
						out = append(out, pm(b))
					}
					return out, nil
				}}
			c.want = []string{}
			for _, bk := range s.BindingKeys() {
				b := s.Bindings[bk]
				if b.ServiceName == n && (oh == "" || bytes.Equal(b.Owner, ob)) {
					c.want = append(c.want, pm(b))
				}
			}
			cs = append(cs, c)
		}
	}
	for _, oh := range limit(owners, 4, salt) {
		oh := oh
		ob, _ := hexDecode(oh)
		c := qcase{name: "withdraw_address", desc: oh, grpcPath: "/irismod.service.Query/WithdrawAddress", grpcReq: &types.QueryWithdrawAddressRequest{Owner: ob},
			grpcResp:  func() proto.Message { return &types.QueryWithdrawAddressResponse{} },
			grpcCanon: func(m proto.Message) []string { return []string{hx(m.(*types.QueryWithdrawAddressResponse).WithdrawAddress)} },
			direct: func(k keeper.Keeper, ctx sdk.Context) (proto.Message, error) {
				return k.WithdrawAddress(sdk.WrapSDKContext(ctx), &types.QueryWithdrawAddressRequest{Owner: ob})
			},
			legacyPath: types.QueryWithdrawAddress, legacyPar: types.QueryWithdrawAddressParams{Owner: ob},
			legacyCanon: func(cdc *codec.LegacyAmino, bz []byte) ([]string, error) {
				var a sdk.AccAddress
				if err := cdc.UnmarshalJSON(bz, &a); err != nil {
					return nil, err
				}
				return []string{hx(a)}, nil
			}}
		if w, ok := s.Withdraw[oh]; ok {
			c.want = []string{hx(w)}
		} else {
			c.want = []string{oh}
		}
		cs = append(cs, c)
	}
	for _, ph := range limit(provs, 5, salt) {
		ph := ph
		pb, _ := hexDecode(ph)
		c := qcase{name: "earned_fees", desc: ph, grpcPath: "/irismod.service.Query/EarnedFees", grpcReq: &types.QueryEarnedFeesRequest{Provider: pb},
			grpcResp:  func() proto.Message { return &types.QueryEarnedFeesResponse{} },
			grpcCanon: func(m proto.Message) []string { return []string{m.(*types.QueryEarnedFeesResponse).Fees.String()} },
			direct: func(k keeper.Keeper, ctx sdk.Context) (proto.Message, error) {
				return k.EarnedFees(sdk.WrapSDKContext(ctx), &types.QueryEarnedFeesRequest{Provider: pb})
			},
			legacyPath: types.QueryEarnedFees, legacyPar: types.QueryEarnedFeesParams{Provider: pb},
			legacyCanon: func(cdc *codec.LegacyAmino, bz []byte) ([]string, error) {
				var f sdk.Coins
				if err := cdc.UnmarshalJSON(bz, &f); err != nil {
					return nil, err
				}
				return []string{f.String()}, nil
			}}
		amt := s.EarnedOf(pb)
		if amt > 0 {
			c.want = []string{fmt.Sprintf("%dstake", amt)}
		} else {
			c.want = []string{""}
		}
		cs = append(cs, c)
	}
	ctxIDs := append(limit(s.CtxIDs(), 4, salt), hx(bytes.Repeat([]byte{0x42}, 40)))
	for _, cid := range ctxIDs {
		cid := cid
		cb, _ := hexDecode(cid)
		c := qcase{name: "context", desc: cid[:12], grpcPath: "/irismod.service.Query/RequestContext", grpcReq: &types.QueryRequestContextRequest{RequestContextId: cb},
			grpcResp:  func() proto.Message { return &types.QueryRequestContextResponse{} },
			grpcCanon: func(m proto.Message) []string { return []string{pm(m.(*types.QueryRequestContextResponse).RequestContext)} },
			direct: func(k keeper.Keeper, ctx sdk.Context) (proto.Message, error) {
				return k.RequestContext(sdk.WrapSDKContext(ctx), &types.QueryRequestContextRequest{RequestContextId: cb})
			},
			legacyPath: types.QueryRequestContext, legacyPar: types.QueryRequestContextParams{RequestContextID: cb},
			legacyCanon: func(cdc *codec.LegacyAmino, bz []byte) ([]string, error) {
				var d types.RequestContext
				if err := cdc.UnmarshalJSON(bz, &d); err != nil {
					return nil, err
				}
				return []string{pm(&d)}, nil
			}}
		if rc, ok := s.Ctx[cid]; ok {
			c.want = []string{pm(rc)}
		} else {
			c.want = []string{pm(&types.RequestContext{})}
		}
		cs = append(cs, c)
		var batches []uint64
		if rc, ok := s.Ctx[cid]; ok {
			batches = []uint64{rc.BatchCounter, rc.BatchCounter + 1}
			if rc.BatchCounter > 0 {
				batches = append(batches, rc.BatchCounter-1)
			}
		} else {
			batches = []uint64{1}
		}
		for _, batch := range batches {
			batch := batch
			reqs, resps := batchRecords(s, cid, batch)
			c1 := qcase{name: "requests_by_ctx", desc: fmt.Sprintf("%s/%d", cid[:12], batch), grpcPath: "/irismod.service.Query/RequestsByReqCtx",
				grpcReq:  &types.QueryRequestsByReqCtxRequest{RequestContextId: cb, BatchCounter: batch},
				grpcResp: func() proto.Message { return &types.QueryRequestsByReqCtxResponse{} },
				grpcCanon: func(m proto.Message) []string {
					var out []string
					for _, q := range m.(*types.QueryRequestsByReqCtxResponse).Requests {
						out = append(out, pm(q))
					}
					return out
				},
				direct: func(k keeper.Keeper, ctx sdk.Context) (proto.Message, error) {
					return k.RequestsByReqCtx(sdk.WrapSDKContext(ctx), &types.QueryRequestsByReqCtxRequest{RequestContextId: cb, BatchCounter: batch})
				},
				legacyPath: types.QueryRequestsByReqCtx, legacyPar: types.QueryRequestsByReqCtxParams{RequestContextID: cb, BatchCounter: batch},
				legacyCanon: canonRequests}
			c1.want = []string{}
			for _, rid := range reqs {
				c1.want = append(c1.want, pm(buildRequest(s, rid)))
			}
			cs = append(cs, c1)
			c2 := qcase{name: "responses", desc: fmt.Sprintf("%s/%d", cid[:12], batch), grpcPath: "/irismod.service.Query/Responses",
				grpcReq:  &types.QueryResponsesRequest{RequestContextId: cb, BatchCounter: batch},
				grpcResp: func() proto.Message { return &types.QueryResponsesResponse{} },
				grpcCanon: func(m proto.Message) []string {
					var out []string
					for _, q := range m.(*types.QueryResponsesResponse).Responses {
						out = append(out, pm(q))
					}
					return out
				},
				direct: func(k keeper.Keeper, ctx sdk.Context) (proto.Message, error) {
					return k.Responses(sdk.WrapSDKContext(ctx), &types.QueryResponsesRequest{RequestContextId: cb, BatchCounter: batch})
				},
				legacyPath: types.QueryResponses, legacyPar: types.QueryResponsesParams{RequestContextID: cb, BatchCounter: batch},
				legacyCanon: func(cdc *codec.LegacyAmino, bz []byte) ([]string, error) {
					var d []types.Response
					if err := cdc.UnmarshalJSON(bz, &d); err != nil {
						return nil, err
					}
					var out []string
					for i := range d {
						out = append(out, pm(&d[i]))
					}
					return out, nil
				}}
			c2.want = []string{}
			for _, rid := range resps {
				c2.want = append(c2.want, pm(s.Resp[rid]))
			}
			cs = append(cs, c2)
		}
	}
	reqIDs := append(limit(s.ReqIDs(), 5, salt), hx(bytes.Repeat([]byte{0x43}, 58)))
	for _, rid := range reqIDs {
		rid := rid
		rb, _ := hexDecode(rid)
		c := qcase{name: "request", desc: rid[:12], grpcPath: "/irismod.service.Query/Request", grpcReq: &types.QueryRequestRequest{RequestId: rb},
			grpcResp:  func() proto.Message { return &types.QueryRequestResponse{} },
			grpcCanon: func(m proto.Message) []string { return []string{pm(m.(*types.QueryRequestResponse).Request)} },
			direct: func(k keeper.Keeper, ctx sdk.Context) (proto.Message, error) {
				return k.Request(sdk.WrapSDKContext(ctx), &types.QueryRequestRequest{RequestId: rb})
			},
			legacyPath: types.QueryRequest, legacyPar: types.QueryRequestParams{RequestID: rb},
			legacyCanon: func(cdc *codec.LegacyAmino, bz []byte) ([]string, error) {
				var d types.Request
				if err := cdc.UnmarshalJSON(bz, &d); err != nil {
					return nil, err
				}
				return []string{pm(&d)}, nil
			}}
		c.want = []string{pm(buildRequest(s, rid))}
		cs = append(cs, c)
		c2 := qcase{name: "response", desc: rid[:12], grpcPath: "/irismod.service.Query/Response", grpcReq: &types.QueryResponseRequest{RequestId: rb},
			grpcResp:  func() proto.Message { return &types.QueryResponseResponse{} },
			grpcCanon: func(m proto.Message) []string { return []string{pm(m.(*types.QueryResponseResponse).Response)} },
			direct: func(k keeper.Keeper, ctx sdk.Context) (proto.Message, error) {
				return k.Response(sdk.WrapSDKContext(ctx), &types.QueryResponseRequest{RequestId: rb})
			},
			legacyPath: types.QueryResponse, legacyPar: types.QueryResponseParams{RequestID: tmbytes.HexBytes(rb)},
			legacyCanon: func(cdc *codec.LegacyAmino, bz []byte) ([]string, error) {
				var d types.Response
				if err := cdc.UnmarshalJSON(bz, &d); err != nil {
					return nil, err
				}
				return []string{pm(&d)}, nil
			}}
		if p, ok := s.Resp[rid]; ok {
			c2.want = []string{pm(p)}
		} else {
			c2.want = []string{pm(&types.Response{})}
		}
		cs = append(cs, c2)
	}
	// parameters, schema
	pc := qcase{name: "params", grpcPath: "/irismod.service.Query/Params", grpcReq: &types.QueryParamsRequest{},
		grpcResp:  func() proto.Message { return &types.QueryParamsResponse{} },
		grpcCanon: func(m proto.Message) []string { p := m.(*types.QueryParamsResponse).Params; return []string{pm(&p)} },
		direct: func(k keeper.Keeper, ctx sdk.Context) (proto.Message, error) {
			return k.Params(sdk.WrapSDKContext(ctx), &types.QueryParamsRequest{})
		},
		legacyPath: types.QueryParameters, legacyPar: nil,
		legacyCanon: func(cdc *codec.LegacyAmino, bz []byte) ([]string, error) {
			var d types.Params
			if err := cdc.UnmarshalJSON(bz, &d); err != nil {
				return nil, err
			}
			return []string{pm(&d)}, nil
		}}
	pp := s.Params
	pc.want = []string{pm(&pp)}
	cs = append(cs, pc)
	for _, sn := range []string{"pricing", "result", "Pricing", "nosuch"} {
		sn := sn
		c := qcase{name: "schema", desc: sn, grpcPath: "/irismod.service.Query/Schema", grpcReq: &types.QuerySchemaRequest{SchemaName: sn},
			grpcResp:  func() proto.Message { return &types.QuerySchemaResponse{} },
			grpcCanon: func(m proto.Message) []string { return []string{m.(*types.QuerySchemaResponse).Schema} },
			direct: func(k keeper.Keeper, ctx sdk.Context) (proto.Message, error) {
				return k.Schema(sdk.WrapSDKContext(ctx), &types.QuerySchemaRequest{SchemaName: sn})
			},
			legacyPath: types.QuerySchema, legacyPar: types.QuerySchemaParams{SchemaName: sn},
			legacyCanon: func(cdc *codec.LegacyAmino, bz []byte) ([]string, error) {
				var d string
				if err := cdc.UnmarshalJSON(bz, &d); err != nil {
					return nil, err
				}
				return []string{d}, nil
			}}
		switch sn {
		case "pricing", "Pricing":
			c.want = []string{types.PricingSchema}
		case "result":
			c.want = []string{types.ResultSchema}
		default:
			c.wantErr = true
		}
		cs = append(cs, c)
	}
	return cs
}

func canonRequests(cdc *codec.LegacyAmino, bz []byte) ([]string, error) {
	var d []types.Request
	if err := cdc.UnmarshalJSON(bz, &d); err != nil {
		return nil, err
	}
	var out []string
	for i := range d {
		out = append(out, pm(&d[i]))
	}
	return out, nil
}

func sameSet(a, b []string) bool {
	a, b = sortedCopy(a), sortedCopy(b)
	if len(a) != len(b) {
		return false
	}
	for i := range a {
		if a[i] != b[i] {
			return false
		}
	}
	return true
}

func oracleC17(x *Exec, r *StepRec) {
	if r.Kind != "end" && r.Kind != "commit" {
		return
	}
	s := r.Post
	h := x.H()
	cdc := h.app.LegacyAmino()
	cases := x.queryCases(s)
	attrs := func(c *qcase) map[string]string {
		a := c13Attrs(x, s)
		a["query"] = c.name
		return a
	}
	judge := func(c *qcase, route string, got []string, err error) bool {
		x.stats.inc("probe_query_" + c.name)
		if c.wantErr {
			if err == nil {
				x.viol("C17", c.name+"_"+route, fmt.Sprintf("height %d: query %s(%s) via %s succeeded for a non-existing subject", s.Height, c.name, c.desc, route), attrs(c))
				return false
			}
			x.stats.inc("probe_query_nonexisting")
			return true
		}
		if err != nil {
			x.viol("C17", c.name+"_"+route, fmt.Sprintf("height %d: query %s(%s) via %s failed: %v", s.Height, c.name, c.desc, route, err), attrs(c))
			return false
		}
		if !sameSet(got, c.want) {
			x.viol("C17", c.name+"_"+route, fmt.Sprintf("height %d: query %s(%s) via %s returned %d record(s) %q, the store holds %d %q", s.Height, c.name, c.desc, route, len(got), trunc(got), len(c.want), trunc(c.want)), attrs(c))
			return false
		}
		return true
	}
	if r.Kind == "end" {
		ctx := h.Ctx()
		legacy := keeper.NewQuerier(h.app.ServiceKeeper, cdc)
		for i := range cases {
			c := &cases[i]
			resp, err := safeDirect(c, h.app.ServiceKeeper, ctx)
			var got []string
			if err == nil {
				got = c.grpcCanon(resp)
			}
			if !judge(c, "grpc", got, err) {
				return
			}
			var data []byte
			if c.legacyPar != nil {
				data = cdc.MustMarshalJSON(c.legacyPar)
			}
			bz, err := legacy(ctx, []string{c.legacyPath}, abci.RequestQuery{Data: data})
			got = nil
			if err == nil {
				got, err = c.legacyCanon(cdc, bz)
			}
			if !judge(c, "legacy", got, err) {
				return
			}
		}
		return
	}
	// after Commit: the ABCI Query entry point
	for i := range cases {
		c := &cases[i]
		reqBz, _ := proto.Marshal(c.grpcReq)
		res := h.Query(c.grpcPath, reqBz)
		var got []string
		var err error
		if res.Code != 0 {
			err = fmt.Errorf("code %d: %s", res.Code, res.Log)
		} else {
			resp := c.grpcResp()
			if e := proto.Unmarshal(res.Value, resp); e != nil {
				err = e
			} else {
				got = c.grpcCanon(resp)
			}
		}
		if !judge(c, "abci_grpc", got, err) {
			return
		}
		var data []byte
		if c.legacyPar != nil {
			data = cdc.MustMarshalJSON(c.legacyPar)
		}
		res = h.Query("custom/"+types.QuerierRoute+"/"+c.legacyPath, data)
		got, err = nil, nil
		if res.Code != 0 {
			err = fmt.Errorf("code %d: %s", res.Code, res.Log)
		} else {
			got, err = c.legacyCanon(cdc, res.Value)
		}
		if !judge(c, "abci_legacy", got, err) {
			return
		}
	}
}

func safeDirect(c *qcase, k keeper.Keeper, ctx sdk.Context) (m proto.Message, err error) {
	defer func() {
		if e := recover(); e != nil {
			err = fmt.Errorf("panic: %v", e)
		}
	}()
	return c.direct(k, ctx)
}

func trunc(s []string) []string {
	out := []string{}
	for i, v := range s {
		if i >= 3 {
			break
		}
		if len(v) > 60 {
			v = v[:60]
		}
		out = append(out, v)
	}
	return out
}
