package main

import (
	"fmt"
	"github.com/cosmos/cosmos-sdk/types/bech32"
	"encoding/json"
	"math/big"
	"sort"
)

func bigInt(v int64) *big.Int { return big.NewInt(v) }

// outputKind: the harness's own judgement of a response output ("well-formed" per the published output schema:
// an object with an object "header" and, if present, an object "body").
func outputKind(output string) string {
	if output == "" {
		return "none"
	}
	var v map[string]json.RawMessage
	if err := json.Unmarshal([]byte(output), &v); err != nil || v == nil {
		return "malformed"
	}
	isObj := func(raw json.RawMessage) bool {
		var o map[string]json.RawMessage
		return json.Unmarshal(raw, &o) == nil && o != nil
	}
	hd, ok := v["header"]
	if !ok || !isObj(hd) {
		return "malformed"
	}
	if bd, ok := v["body"]; ok && !isObj(bd) {
		return "malformed"
	}
	return "valid"
}

// RunStats: per-run counters (fault kinds actually fired, probes reached, sizes).
type RunStats struct {
	Steps  int            `json:"steps"`
	Blocks int            `json:"blocks"`
	Txs    int            `json:"txs"`
	C      map[string]int `json:"c"`
	SimNs  int64          `json:"sim_ns"`
	// abstract states / transitions reached (hashes)
	States map[string]bool `json:"-"`
	Trans  map[string]bool `json:"-"`
}

func newRunStats() *RunStats {
	return &RunStats{C: map[string]int{}, States: map[string]bool{}, Trans: map[string]bool{}}
}

func (s *RunStats) inc(k string) { s.C[k]++ }
func (s *RunStats) add(k string, n int) {
	if n != 0 {
		s.C[k] += n
	}
}

func sortedIntKeys(m map[string]int) []string {
	out := make([]string, 0, len(m))
	for k := range m {
		out = append(out, k)
	}
	sort.Strings(out)
	return out
}

func minI64(a, b int64) int64 {
	if a < b {
		return a
	}
	return b
}
func maxI64(a, b int64) int64 {
	if a > b {
		return a
	}
	return b
}

// decodeBech32: account addresses of any length (the SDK's own parser insists on 20 bytes).
func decodeBech32(s string) ([]byte, error) {
	hrp, b, err := bech32.DecodeAndConvert(s)
	if err != nil {
		return nil, err
	}
	if hrp != "cosmos" {
		return nil, fmt.Errorf("unexpected prefix %q", hrp)
	}
	return b, nil
}
