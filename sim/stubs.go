package main

import "encoding/hex"

func hexDecode(s string) ([]byte, error) { return hex.DecodeString(s) }

func cmdWorker(args []string)  {}
func cmdCheck(args []string)   {}
func cmdSelfDet(args []string) {}

func (x *Exec) doProbe(op *Op)          {}
func (x *Exec) doExportContinue(op *Op) {}
