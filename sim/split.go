package main

// Real process boundary for C20 ("independent of process"): the same trace is executed once in one process and once
// split over two fresh OS processes — the first executes ops[0..cut] and dumps only what is durable (the committed
// key-value database) plus the harness's own symbol tables; the second starts a new application on that database and
// executes the rest. Every committed state digest must agree with the single-process execution. Anything the module
// keeps in process memory (package-level or keeper-level caches) is lost at the boundary, exactly as in a real restart.

import (
	"encoding/gob"
	"encoding/json"
	"flag"
	"fmt"
	"io/ioutil"
	"os"
	"os/exec"
	"strings"
	"time"

	tmproto "github.com/tendermint/tendermint/proto/tendermint/types"
	dbm "github.com/tendermint/tm-db"
)

type SplitDump struct {
	KVs       [][2][]byte
	MemoCtx   map[string]string
	MemoReq   map[string]string
	LastT     int64
	Height    int64
	HeaderT   int64
	Generation int
	Digests   []string
	Rates     map[string]string
	NoForeign bool
}

func (h *Host) dumpDB() [][2][]byte {
	var out [][2][]byte
	it, err := h.db.Iterator(nil, nil)
	must(err)
	defer it.Close()
	for ; it.Valid(); it.Next() {
		out = append(out, [2][]byte{append([]byte{}, it.Key()...), append([]byte{}, it.Value()...)})
	}
	return out
}

func newHostFromDump(cfg *Config, d *SplitDump) *Host {
	h := &Host{cfg: cfg, db: dbm.NewMemDB(), chain: chainID, generation: d.Generation, rates: copyRates(d.Rates), noForeign: d.NoForeign}
	for _, kv := range d.KVs {
		v := kv[1]
		if v == nil {
			v = []byte{} // gob turns an empty value into nil
		}
		must(h.db.Set(kv[0], v))
	}
	h.app = newApp(h.db, cfg.MultiToken)
	h.registerForeign()
	h.header = tmproto.Header{ChainID: h.chain, Height: h.app.LastBlockHeight(), Time: time.Unix(0, d.HeaderT).UTC()}
	return h
}

// commitDigests executes ops[from:to) and returns the state digest after every commit.
func runForDigests(x *Exec, ops []Op, from, to int) []string {
	var out []string
	for i := from; i < to && i < len(ops); i++ {
		if !x.Apply(&ops[i], i) {
			break
		}
		if ops[i].K == "end" && !x.H().inBlock {
			out = append(out, fmt.Sprintf("%d:%s", x.H().Height(), x.cur.Digest()[:20]))
		}
	}
	return out
}

func neutralCfg(c *Config) *Config {
	n := *c
	n.Property = "NONE"
	n.Replicas = 1
	return &n
}

func cmdPhase(args []string) {
	fs := flag.NewFlagSet("phase", flag.ExitOnError)
	tracePath := fs.String("trace", "", "")
	cut := fs.Int("cut", 0, "")
	in := fs.String("in", "", "")
	out := fs.String("out", "", "")
	fs.Parse(args)
	t, err := LoadTrace(*tracePath)
	if err != nil {
		fmt.Fprintln(os.Stderr, err)
		os.Exit(2)
	}
	cfg := neutralCfg(t.Config)
	if *in == "" {
		x := NewExec(cfg)
		d := &SplitDump{Digests: runForDigests(x, t.Ops, 0, *cut)}
		d.KVs = x.H().dumpDB()
		d.MemoCtx, d.MemoReq = x.memoCtx, x.memoReq
		d.LastT = x.lastT.UnixNano()
		d.Height = x.H().Height()
		d.HeaderT = x.H().Time().UnixNano()
		d.Generation = x.H().generation
		d.Rates = x.H().rates
		d.NoForeign = x.H().noForeign
		f, err := os.Create(*out)
		must(err)
		must(gob.NewEncoder(f).Encode(d))
		f.Close()
		return
	}
	f, err := os.Open(*in)
	must(err)
	var d SplitDump
	must(gob.NewDecoder(f).Decode(&d))
	f.Close()
	h := newHostFromDump(cfg, &d)
	x := &Exec{cfg: cfg, memoCtx: d.MemoCtx, memoReq: d.MemoReq, armed: map[string]bool{}, stats: newRunStats(), hosts: []*Host{h}}
	x.genesis = time.Unix(cfg.GenesisTime, 0).UTC()
	x.lastT = time.Unix(0, d.LastT).UTC()
	x.cur = h.TakeSnapshot(h.Ctx())
	x.tr = NewTracker(cfg, x.cur)
	all := append(d.Digests, runForDigests(x, t.Ops, *cut, len(t.Ops))...)
	b, _ := json.Marshal(all)
	fmt.Println(string(b))
}

// splitCheck returns "" if the split execution agrees with the single-process one, else a description.
// cut must be the index just after an "end" op (a block boundary).
func splitCheck(self string, t *Trace, cut int) (string, error) {
	dir, err := ioutil.TempDir("", "svcsim-split")
	if err != nil {
		return "", err
	}
	defer os.RemoveAll(dir)
	tp := dir + "/trace.json"
	if err := t.Save(tp); err != nil {
		return "", err
	}
	// reference: one process (this one)
	ref := func() []string {
		var c Trace
		b, _ := json.Marshal(t)
		json.Unmarshal(b, &c)
		x := NewExec(neutralCfg(c.Config))
		return runForDigests(x, c.Ops, 0, len(c.Ops))
	}()
	dump := dir + "/dump.gob"
	if out, err := exec.Command(self, "phase", "-trace", tp, "-cut", fmt.Sprint(cut), "-out", dump).CombinedOutput(); err != nil {
		return "", fmt.Errorf("phase 1: %v %s", err, tail(string(out)))
	}
	out, err := exec.Command(self, "phase", "-trace", tp, "-cut", fmt.Sprint(cut), "-in", dump).Output()
	if err != nil {
		return "", fmt.Errorf("phase 2: %v", err)
	}
	var got []string
	lines := strings.Split(strings.TrimSpace(string(out)), "\n")
	if err := json.Unmarshal([]byte(lines[len(lines)-1]), &got); err != nil {
		return "", fmt.Errorf("phase 2 output: %v", err)
	}
	n := minInt(len(ref), len(got))
	for i := 0; i < n; i++ {
		if ref[i] != got[i] {
			return fmt.Sprintf("committed state differs at height/digest %s (one process) vs %s (restarted in a fresh process after op %d)", ref[i], got[i], cut), nil
		}
	}
	if len(ref) != len(got) {
		return fmt.Sprintf("%d commits in one process, %d when restarted in a fresh process after op %d", len(ref), len(got), cut), nil
	}
	return "", nil
}

func tail(s string) string {
	if len(s) > 400 {
		return s[len(s)-400:]
	}
	return s
}

// blockBoundaries: op indexes just after an "end" op.
func blockBoundaries(ops []Op) []int {
	var out []int
	for i := range ops {
		if ops[i].K == "end" {
			out = append(out, i+1)
		}
	}
	return out
}
