package main

// Host: drives the real SimApp (real service module, real bank/auth/params, real IAVL stores on an in-memory DB)
// through ABCI. The tx runner is the only stub (DESIGN §2.1, host contract H1–H6).

import (
	"encoding/json"
	"fmt"
	"runtime/debug"
	"sort"
	"strings"
	"time"

	abci "github.com/tendermint/tendermint/abci/types"
	tmbytes "github.com/tendermint/tendermint/libs/bytes"
	"github.com/tendermint/tendermint/libs/log"
	tmproto "github.com/tendermint/tendermint/proto/tendermint/types"
	dbm "github.com/tendermint/tm-db"

	sdk "github.com/cosmos/cosmos-sdk/types"
	authtypes "github.com/cosmos/cosmos-sdk/x/auth/types"
	"github.com/cosmos/cosmos-sdk/x/bank"
	banktypes "github.com/cosmos/cosmos-sdk/x/bank/types"

	service "github.com/irismod/service"
	simapp "github.com/irismod/service/app"
	"github.com/irismod/service/types"
)

const chainID = "verif-chain"
const foreignModule = "verifmod"

// CallbackRec records one invocation of a foreign-module callback.
type CallbackRec struct {
	Kind    string   `json:"kind"` // resp | state
	Ctx     string   `json:"ctx"`  // hex context id
	Outputs []string `json:"outputs,omitempty"`
	Err     string   `json:"err,omitempty"`
	HasErr  bool     `json:"has_err,omitempty"`
	Cause   string   `json:"cause,omitempty"`
}

// Ev is a flattened ABCI event.
type Ev struct {
	Type  string      `json:"type"`
	Attrs [][2]string `json:"attrs"`
}

func (e Ev) Get(k string) string {
	for _, a := range e.Attrs {
		if a[0] == k {
			return a[1]
		}
	}
	return ""
}

type Host struct {
	cfg    *Config
	db     dbm.DB
	app    *simapp.SimApp
	header tmproto.Header
	// callbacks recorded since the last TakeCallbacks()
	callbacks []CallbackRec
	inBlock   bool
	chain     string
	// number of times the chain was re-created from an exported genesis
	generation int
	// after InitChain and before the first Commit the genesis state lives in the deliver state only
	genesisPending bool
	genesisState   []byte
	genesisHeight  int64
	genesisTime    time.Time
	// multi-token runs: the exchange-rate feed of the harness's "oracle" module service (pair -> rate), changed by
	// "rate" ops; state of a module outside the one under test, so it is kept by the harness
	rates     map[string]string
	rateAsked int
	// noForeign: this chain was started from an exported genesis by a binary that does not contain the foreign module
	// (nothing registers its callbacks): its contexts are still there, paused, and nobody may drive them
	noForeign bool
	// what the harness's module service answered since the last step (input, result, output)
	modReplies []ModReply
}

// ModReply is one answer of the harness's "oracle" module service.
type ModReply struct {
	Input, Result, Output string
}

func (h *Host) takeModReplies() []ModReply {
	r := h.modReplies
	h.modReplies = nil
	return r
}

func newApp(db dbm.DB, multiToken ...bool) *simapp.SimApp {
	app := simapp.NewSimApp(log.NewNopLogger(), db, nil, true, map[int64]bool{}, simapp.DefaultNodeHome, 0, simapp.MakeEncodingConfig())
	if len(multiToken) > 0 && multiToken[0] {
		if !rewireTokenKeeper(app) {
			panic("INTERNAL: cannot re-wire the token keeper of the sample app (multi-token run)")
		}
	}
	return app
}

// canRewire: whether the sample app and the keeper are shaped so that the token keeper can be replaced (probed once).
var canRewireMemo = 0

func canRewire() bool {
	if canRewireMemo == 0 {
		canRewireMemo = -1
		app := simapp.NewSimApp(log.NewNopLogger(), dbm.NewMemDB(), nil, true, map[int64]bool{}, simapp.DefaultNodeHome, 0, simapp.MakeEncodingConfig())
		if rewireTokenKeeper(app) {
			canRewireMemo = 1
		}
	}
	return canRewireMemo == 1
}

func (h *Host) registerForeign() {
	k := h.app.ServiceKeeper
	if h.noForeign {
		h.registerRest()
		return
	}
	must(k.RegisterResponseCallback(foreignModule, func(ctx sdk.Context, id tmbytes.HexBytes, outputs []string, err error) {
		rec := CallbackRec{Kind: "resp", Ctx: strings.ToLower(id.String()), Outputs: append([]string{}, outputs...)}
		if err != nil {
			rec.HasErr = true
			rec.Err = err.Error()
		}
		h.callbacks = append(h.callbacks, rec)
	}))
	must(k.RegisterStateCallback(foreignModule, func(ctx sdk.Context, id tmbytes.HexBytes, cause string) {
		h.callbacks = append(h.callbacks, CallbackRec{Kind: "state", Ctx: strings.ToLower(id.String()), Cause: cause})
	}))
	h.registerRest()
}

// registerRest: everything registerForeign registers besides the foreign module's own two callbacks
func (h *Host) registerRest() {
	k := h.app.ServiceKeeper
	// two sloppy modules that registered only one of the two callbacks: the keeper must refuse contexts for them
	must(k.RegisterResponseCallback("halfresp", func(ctx sdk.Context, id tmbytes.HexBytes, outputs []string, err error) {}))
	must(k.RegisterStateCallback("halfstate", func(ctx sdk.Context, id tmbytes.HexBytes, cause string) {}))
	if h.cfg.ModuleService || h.cfg.MultiToken {
		must(k.RegisterModuleService(types.RegisterModuleName, &types.ModuleService{
			ServiceName: types.OraclePriceServiceName,
			Provider:    types.OraclePriceServiceProvider,
			ReuquestService: func(ctx sdk.Context, input string) (string, string) {
				// what the module answers is a function of the request alone (and, in multi-token runs, of the rate table):
				// a caller may ask for a malformed or a refusing answer
				res, out := func() (string, string) {
					switch {
					case indexOf(input, `"mode":"bad"`) >= 0:
						return `{"code":200,"message":""}`, `{"body":{"rate":"1.0"}}` // no header: fails the output schema
					case indexOf(input, `"mode":"err"`) >= 0:
						return `{"code":500,"message":"refused"}`, ""
					}
					if h.cfg.MultiToken {
						h.rateAsked++
						return rateReply(h.rates, input)
					}
					return `{"code":200,"message":""}`, `{"header":{},"body":{"rate":"1.0"}}`
				}()
				// the module knows what it answered: recorded for the oracles (never read back from the service module)
				h.modReplies = append(h.modReplies, ModReply{Input: input, Result: res, Output: out})
				return res, out
			},
		}))
	}
}

func must(err error) {
	if err != nil {
		panic(err)
	}
}

func (h *Host) TakeCallbacks() []CallbackRec {
	c := h.callbacks
	h.callbacks = nil
	return c
}

func serviceParams(cfg *Config) types.Params {
	tax, err := sdk.NewDecFromStr(cfg.ServiceFeeTax)
	must(err)
	slash, err := sdk.NewDecFromStr(cfg.SlashFraction)
	must(err)
	return types.NewParams(
		cfg.MaxRequestTimeout, cfg.MinDepositMultiple,
		sdk.NewCoins(sdk.NewCoin("stake", sdk.NewInt(cfg.MinDeposit))),
		tax, slash, time.Duration(cfg.ComplaintNs), time.Duration(cfg.ArbitrationNs),
		types.DefaultTxSizeLimit, "stake",
	)
}

// NewHost creates the chain from the run configuration.
func NewHost(cfg *Config) *Host {
	if cfg.MultiToken && !canRewire() {
		// the application is no longer shaped as expected: the run goes ahead as a single-token run (reported by the
		// probe multi_token_unavailable), never as an alarm
		cfg.MultiToken = false
		cfg.Rates = nil
		multiTokenRun = false
	}
	h := &Host{cfg: cfg, db: dbm.NewMemDB(), chain: chainID, rates: map[string]string{}}
	for k, v := range cfg.Rates {
		h.rates[k] = v
	}
	h.app = newApp(h.db, cfg.MultiToken)
	h.registerForeign()

	gs := simapp.NewDefaultGenesisState()
	cdc := h.app.AppCodec()

	var accs []authtypes.GenesisAccount
	var bals []banktypes.Balance
	total := sdk.NewCoins()
	for i := 0; i < cfg.NAccounts; i++ {
		addr := sdk.AccAddress(acctAddr(i))
		accs = append(accs, authtypes.NewBaseAccount(addr, nil, uint64(i), 0))
		if cfg.WhaleBalance != "" && i == cfg.WhaleAccount {
			amt, ok := sdk.NewIntFromString(cfg.WhaleBalance)
			if !ok {
				panic("bad whale balance")
			}
			c := sdk.NewCoins(sdk.NewCoin("stake", amt))
			bals = append(bals, banktypes.Balance{Address: addr, Coins: c})
			total = total.Add(c...)
		} else if cfg.Balances[i] > 0 {
			c := sdk.NewCoins(sdk.NewCoin("stake", sdk.NewInt(cfg.Balances[i])))
			bals = append(bals, banktypes.Balance{Address: addr, Coins: c})
			total = total.Add(c...)
		}
	}
	gs[authtypes.ModuleName] = cdc.MustMarshalJSON(authtypes.NewGenesisState(authtypes.DefaultParams(), accs))
	gs[banktypes.ModuleName] = cdc.MustMarshalJSON(banktypes.NewGenesisState(banktypes.DefaultGenesisState().Params, bals, total, []banktypes.Metadata{}))

	sg := types.GenesisState{Params: serviceParams(cfg)}
	if cfg.ModuleService || cfg.MultiToken {
		sg.Definitions = append(sg.Definitions, types.GenOraclePriceSvcDefinition())
		sb := types.GenOraclePriceSvcBinding("stake")
		if cfg.SysPrice != "" {
			// a chain whose genesis prices the module's system binding above the built-in 0 (still a zero deposit)
			sb.Pricing = fmt.Sprintf(`{"price":"%s"}`, cfg.SysPrice)
		}
		sg.Bindings = append(sg.Bindings, sb)
	}
	gs[types.ModuleName] = cdc.MustMarshalJSON(&sg)

	stateBytes, err := json.Marshal(gs)
	must(err)
	h.initChain(stateBytes, cfg.InitialHeight, time.Unix(cfg.GenesisTime, 0).UTC())
	return h
}

func (h *Host) initChain(state []byte, initialHeight int64, t time.Time) {
	h.genesisState, h.genesisHeight, h.genesisTime = state, initialHeight, t
	h.app.InitChain(abci.RequestInitChain{
		ChainId:         h.chain,
		Time:            t,
		InitialHeight:   initialHeight,
		Validators:      []abci.ValidatorUpdate{},
		ConsensusParams: simapp.DefaultConsensusParams,
		AppStateBytes:   state,
	})
	h.header = tmproto.Header{ChainID: h.chain, Height: initialHeight - 1, Time: t}
	if initialHeight <= 1 {
		h.header.Height = 0
	}
	h.inBlock = false
	h.genesisPending = true
}

// Height of the block in progress (or last committed one).
func (h *Host) Height() int64    { return h.header.Height }
func (h *Host) Time() time.Time { return h.header.Time }

// Ctx returns the context on the in-flight block state, or on the committed state between blocks.
func (h *Host) Ctx() sdk.Context {
	if h.inBlock || h.genesisPending {
		return h.app.BaseApp.NewContext(false, h.header)
	}
	return h.app.BaseApp.NewContext(true, h.header)
}

func (h *Host) BeginBlock(height int64, t time.Time) {
	h.header = tmproto.Header{ChainID: h.chain, Height: height, Time: t}
	h.app.BeginBlock(abci.RequestBeginBlock{Header: h.header})
	h.inBlock = true
}

func flattenEvents(evs []abci.Event) []Ev {
	out := make([]Ev, 0, len(evs))
	for _, e := range evs {
		f := Ev{Type: e.Type}
		for _, a := range e.Attributes {
			f.Attrs = append(f.Attrs, [2]string{string(a.Key), string(a.Value)})
		}
		out = append(out, f)
	}
	return out
}

// EndBlock runs the real EndBlock; a panic is recovered and reported (C20).
func (h *Host) EndBlock() (evs []Ev, panicMsg string) {
	defer func() {
		if r := recover(); r != nil {
			panicMsg = fmt.Sprintf("%v\n%s", r, trimStack(debug.Stack()))
		}
	}()
	res := h.app.EndBlock(abci.RequestEndBlock{Height: h.header.Height})
	return flattenEvents(res.Events), ""
}

func (h *Host) Commit() []byte {
	res := h.app.Commit()
	h.inBlock = false
	h.genesisPending = false
	return res.Data
}

// Restart: the process dies, only what Commit made durable survives.
func (h *Host) Restart() {
	h.app = newApp(h.db, h.cfg.MultiToken)
	h.callbacks = nil
	h.registerForeign()
	h.inBlock = false
	if h.genesisPending {
		// nothing was ever committed: the node starts from its genesis file again
		h.initChain(h.genesisState, h.genesisHeight, h.genesisTime)
		return
	}
	h.header = tmproto.Header{ChainID: h.chain, Height: h.app.LastBlockHeight(), Time: h.header.Time}
}

func trimStack(b []byte) string {
	lines := strings.Split(string(b), "\n")
	var keep []string
	for _, l := range lines {
		if strings.Contains(l, "irismod/service") || strings.Contains(l, "/repo/") {
			keep = append(keep, strings.TrimSpace(l))
		}
		if len(keep) >= 8 {
			break
		}
	}
	return strings.Join(keep, " | ")
}

// TxResult of the stub tx runner.
type TxResult struct {
	Code      string `json:"code"` // ok | invalid | error | panic | oog
	Err       string `json:"err,omitempty"`
	FailedMsg int    `json:"failed_msg"`
	Events    []Ev   `json:"-"`
}

// RunTx executes the msgs atomically (H1), injecting tx hash and msg index (H2). afterMsg is invoked
// on the tentative (cached) state after every message that ran without error.
func (h *Host) RunTx(msgs []sdk.Msg, hash []byte, idxBase int64, gas uint64, afterMsg func(i int, ctx sdk.Context)) (res TxResult) {
	for i, m := range msgs {
		if err := safeValidate(m); err != nil {
			return TxResult{Code: "invalid", Err: err.Error(), FailedMsg: i}
		}
	}
	base := h.app.BaseApp.NewContext(false, h.header)
	cctx, write := base.CacheContext()
	if gas > 0 {
		cctx = cctx.WithGasMeter(sdk.NewGasMeter(gas))
	} else {
		cctx = cctx.WithGasMeter(sdk.NewInfiniteGasMeter())
	}
	svcHandler := service.NewHandler(h.app.ServiceKeeper)
	bankHandler := bank.NewHandler(h.app.BankKeeper)

	cur := 0
	defer func() {
		if r := recover(); r != nil {
			if _, ok := r.(sdk.ErrorOutOfGas); ok {
				res = TxResult{Code: "oog", Err: "out of gas", FailedMsg: cur}
				return
			}
			res = TxResult{Code: "panic", Err: fmt.Sprintf("%v || %s", r, trimStack(debug.Stack())), FailedMsg: cur}
		}
	}()
	var evs []Ev
	for i, m := range msgs {
		cur = i
		mctx := cctx.WithValue(types.TxHash, hash).WithValue(types.MsgIndex, idxBase+int64(i))
		var r *sdk.Result
		var err error
		switch m.(type) {
		case *banktypes.MsgSend:
			r, err = bankHandler(mctx, m)
		default:
			r, err = svcHandler(mctx, m)
		}
		if err != nil {
			return TxResult{Code: "error", Err: err.Error(), FailedMsg: i}
		}
		if r != nil {
			evs = append(evs, flattenEvents(r.Events)...)
		}
		if afterMsg != nil {
			afterMsg(i, cctx.WithGasMeter(sdk.NewInfiniteGasMeter()))
		}
	}
	write()
	return TxResult{Code: "ok", Events: evs, FailedMsg: -1}
}

// RunModule executes a foreign-module step (its "handler") atomically, like a tx.
func (h *Host) RunModule(hash []byte, fn func(ctx sdk.Context) error) (res TxResult) {
	base := h.app.BaseApp.NewContext(false, h.header)
	cctx, write := base.CacheContext()
	cctx = cctx.WithGasMeter(sdk.NewInfiniteGasMeter()).WithValue(types.TxHash, hash).WithValue(types.MsgIndex, int64(0))
	defer func() {
		if r := recover(); r != nil {
			res = TxResult{Code: "panic", Err: fmt.Sprintf("%v || %s", r, trimStack(debug.Stack()))}
		}
	}()
	if err := fn(cctx); err != nil {
		return TxResult{Code: "error", Err: err.Error()}
	}
	write()
	return TxResult{Code: "ok", FailedMsg: -1}
}

// SetParams models a passed governance proposal between blocks: it is written at the start of the next block
// (the executor calls it right after BeginBlock so that it is part of that block's durable state).
func (h *Host) SetParams(p *ParamsOp) {
	// the way a passed parameter-change proposal does it: through the params subspace, key by key (not through the
	// service keeper's own SetParams, which a keeper-level cache could observe)
	ctx := h.Ctx()
	ss := h.app.GetSubspace(types.ModuleName)
	var cur types.Params
	ss.GetParamSet(ctx, &cur)
	if p.ServiceFeeTax != "" {
		d, err := sdk.NewDecFromStr(p.ServiceFeeTax)
		must(err)
		cur.ServiceFeeTax = d
		ss.Set(ctx, types.KeyServiceFeeTax, d)
	}
	if p.SlashFraction != "" {
		d, err := sdk.NewDecFromStr(p.SlashFraction)
		must(err)
		cur.SlashFraction = d
		ss.Set(ctx, types.KeySlashFraction, d)
	}
	if p.MaxRequestTimeout > 0 {
		cur.MaxRequestTimeout = p.MaxRequestTimeout
		ss.Set(ctx, types.KeyMaxRequestTimeout, p.MaxRequestTimeout)
	}
	if p.ArbitrationNs > 0 {
		cur.ArbitrationTimeLimit = time.Duration(p.ArbitrationNs)
		ss.Set(ctx, types.KeyArbitrationTimeLimit, cur.ArbitrationTimeLimit)
	}
	if p.ComplaintNs > 0 {
		cur.ComplaintRetrospect = time.Duration(p.ComplaintNs)
		ss.Set(ctx, types.KeyComplaintRetrospect, cur.ComplaintRetrospect)
	}
	if p.MinDeposit > 0 {
		denom := "stake"
		if p.MinDepositDenom != "" {
			denom = p.MinDepositDenom
		}
		cur.MinDeposit = sdk.NewCoins(sdk.NewCoin(denom, sdk.NewInt(p.MinDeposit)))
		ss.Set(ctx, types.KeyMinDeposit, cur.MinDeposit)
	}
	if p.MinDepositMultiple > 0 {
		cur.MinDepositMultiple = p.MinDepositMultiple
		ss.Set(ctx, types.KeyMinDepositMultiple, p.MinDepositMultiple)
	}
	must(cur.Validate())
}

// Query through the real ABCI Query entry point (committed state only).
func (h *Host) Query(path string, data []byte) abci.ResponseQuery {
	return h.app.Query(abci.RequestQuery{Path: path, Data: data})
}

func sortedKeys(m map[string]bool) []string {
	out := make([]string, 0, len(m))
	for k := range m {
		out = append(out, k)
	}
	sort.Strings(out)
	return out
}

// safeValidate: stateless validation; a panic inside it rejects the message (C20 speaks about messages that *pass*
// stateless validation).
func safeValidate(m sdk.Msg) (err error) {
	defer func() {
		if r := recover(); r != nil {
			err = fmt.Errorf("ValidateBasic panicked: %v", r)
		}
	}()
	return m.ValidateBasic()
}
