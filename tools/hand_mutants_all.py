#!/usr/bin/env python3
"""Re-runs every hand-written mutant (H* of hand_mutants.py, X* of hand_mutants_x.py) on scratch worktrees of /repo's HEAD
(never on /repo), two at a time. usage: hand_mutants_all.py [id ...] — rewrites /verif/mutants/<id>.json, prints a summary."""
import subprocess, sys, json, os, re
from concurrent.futures import ThreadPoolExecutor
def load(path):
    src = open(path).read()
    a = src.index("M = ["); b = src.index("\n]\n", a) + 3
    ns = {}; exec(src[a:b], ns); return ns["M"]
M = load("/verif/tools/hand_mutants.py") + load("/verif/tools/hand_mutants_x.py")
sel = set(sys.argv[1:])
def one(m):
    (mid, prop, f, old, new, what) = m
    if sel and mid not in sel: return
    wt = f"/tmp/hma-{mid}"
    subprocess.run(f"git -C /repo worktree add -q --detach {wt} HEAD", shell=True, check=True)
    try:
        path = f"{wt}/{f}"; src = open(path).read()
        if old not in src:
            print(mid, "PATTERN NOT FOUND", flush=True); return
        open(path, "w").write(src.replace(old, new, 1))
        b = subprocess.run(f"cd {wt} && GOFLAGS=-mod=mod GOPROXY=off GOSUMDB=off go build ./... 2>&1 | tail -3", shell=True, capture_output=True, text=True)
        if b.stdout.strip():
            print(mid, "DOES NOT BUILD:", b.stdout.strip()[:300], flush=True); return
        diff = subprocess.run(f"git -C {wt} diff", shell=True, capture_output=True, text=True).stdout
        p = subprocess.run(f"cd /verif && VERIF_REPO={wt} VERIF_RUNS=1200 VERIF_WORKERS=8 ./check.sh {prop} quick", shell=True, capture_output=True, text=True, errors="replace")
        out = p.stdout + p.stderr
    finally:
        subprocess.run(f"git -C /repo worktree remove --force {wt}; rm -rf {wt}", shell=True)
    viol = [l for l in out.splitlines() if l.startswith("violation:")]
    rules = sorted({v.split()[1].rstrip(':').split(';')[0] for v in viol})
    runs = re.search(r"runs=(\d+).*wall=([\d.]+)s", out)
    rec = {"id": mid, "property": prop, "file": f, "what": what, "diff": diff, "detected": bool(viol), "rules": rules,
           "first_violation": viol[0][:500] if viol else None, "runs_until_stop": int(runs.group(1)) if runs else None, "exit": p.returncode,
           "rechecked": "session 3, tree " + subprocess.run("git -C /repo log --format=%h -1", shell=True, capture_output=True, text=True).stdout.strip()}
    json.dump(rec, open(f"/verif/mutants/{mid}.json", "w"), indent=1)
    print(mid, prop, "DETECTED" if viol else "not detected", rules, f"rc={p.returncode}", flush=True)
with ThreadPoolExecutor(2) as ex:
    list(ex.map(one, M))
