package main

import (
	"math/rand"
	"os"
	"strconv"
)

func allFaults(names ...string) map[string]bool {
	m := map[string]bool{}
	for _, n := range names {
		m[n] = true
	}
	return m
}

var baseFaults = []string{"drop", "delay", "dup", "reorder", "clock", "oog", "multimsg", "poor", "params"}

func defaultProfile(name string) *Profile {
	return &Profile{
		Name: name, WOwner: 3, WConsumer: 3, WProvider: 1, WStranger: 1, WModule: 0.5, WControl: 2,
		Faults: allFaults(baseFaults...), FaultFree: 0.25,
		Blocks: [2]int{30, 70}, BlocksThorough: [2]int{40, 250},
		Boundary: 0.1, PrefixAddrs: 0.15, Replicas: 1, TimePromos: 0.3, ModuleCtx: 0.3, BigInitialHeight: 0.1, Burst: 0.02,
	}
}

// profiles: DESIGN §7 table.
func profileFor(prop string) *Profile {
	p := defaultProfile(prop)
	switch prop {
	case "C01":
		p.ModSvcCalls = 0.08
		p.WConsumer, p.WProvider = 4, 1
	case "C02":
		p.WConsumer = 4
	case "C03", "C14":
		p.WOwner, p.WConsumer, p.WControl = 6, 2, 1
	case "C04":
		p.WConsumer, p.WProvider = 5, 0.7
	case "C05":
		p.WStranger = 4
		p.ModuleCtx = 0.5
		p.NoForeignImport = 0.6
	case "C06", "C07":
		p.WConsumer, p.WOwner = 4, 3
		p.TimePromos = 0.7
		p.Burst = 0.05
	case "C08":
		p.WConsumer, p.WStranger = 4, 2
	case "C09", "C11":
		p.WControl, p.WConsumer = 5, 4
	case "C10":
		p.WControl, p.WConsumer = 5, 4
		p.ModSvcCalls = 0.08
	case "C12":
		p.ModuleCtx = 0.9
		p.WModule, p.WControl = 3, 3
	case "C13":
		p.WOwner, p.WConsumer = 4, 4
		p.PrefixAddrs = 0.5
	case "C15", "C17", "C18":
		p.PrefixAddrs = 0.5
		p.WStranger = 2
	case "C16":
		p.WControl, p.WConsumer = 4, 4
		p.ModSvcCalls = 0.08
	case "C19":
		p.Faults["export"] = true
		p.Faults["expcont"] = true
		p.ExportProbe = 0.12
		p.PrefixAddrs = 0.1
	case "C20":
		p.Faults["crash"] = true
		p.Replicas = 2
		p.Boundary = 0.4
		p.Burst = 0.12
		p.WStranger = 3
	}
	if prop == "C11" {
		p.HugeFreq = 0.08
	}
	// the multi-token dimension is orthogonal to every property: all profiles spend a minority of their runs on it
	p.MultiToken = 0.12
	// likewise calls to the module-reserved service (served synchronously inside the transaction)
	if p.ModSvcCalls == 0 {
		p.ModSvcCalls = 0.06
	}
	if v := os.Getenv("VERIF_MODSVC"); v != "" { // experiments only: the share of runs in which consumers call the module-reserved service
		if f, err := strconv.ParseFloat(v, 64); err == nil {
			p.ModSvcCalls = f
		}
	}
	if v := os.Getenv("VERIF_MULTI"); v != "" { // experiments only: the share of multi-token runs
		if f, err := strconv.ParseFloat(v, 64); err == nil {
			p.MultiToken = f
		}
	}
	// state invariants must also hold on a chain restarted from a zero-height export (F9): a minority of the runs of
	// these profiles export and continue
	switch prop {
	case "C19":
		p.ExpContRuns = 0.7
	case "C20":
		// replicas run in lockstep; the export path is C19's
	default:
		p.Faults["expcont"] = true
		p.ExpContRuns = 0.12
		if prop == "C05" {
			p.ExpContRuns = 0.2
		} else if prop != "C12" {
			p.NoForeignImport = 0.15
		}
	}
	return p
}

// NewGen draws the swarm configuration of one run.
func NewGen(seed int64, prop string, run int, thorough bool) *Gen {
	rs := runSeed(seed, prop, run)
	rng := rand.New(rand.NewSource(rs))
	prof := profileFor(prop)
	g := &Gen{rng: rng, prof: prof, thorough: thorough, longLivedRefs: map[string]bool{}}

	cfg := &Config{Property: prop, Seed: seed, Run: run}
	nOwners := 2 + g.pick(2)
	// "stretch" runs (swarm dimension): more parties, longer timeouts, larger amounts, long-lived contexts — the scale
	// at which fixed-size buffers, narrow integer conversions and hard-coded limits start to matter
	g.stretch = g.chance(0.15) || (thorough && g.chance(0.2))
	nProv := 2 + g.pick(3)
	if g.stretch {
		nProv = 5 + g.pick(6)
	}
	nCons := 2 + g.pick(2)
	idx := 0
	for i := 0; i < nOwners; i++ {
		g.owners = append(g.owners, idx)
		idx++
	}
	for i := 0; i < nProv; i++ {
		g.providers = append(g.providers, idx)
		idx++
	}
	for i := 0; i < nCons; i++ {
		g.consumers = append(g.consumers, idx)
		idx++
	}
	g.poor = idx
	idx++
	g.stranger = idx
	idx++
	cfg.NAccounts = idx
	cfg.Balances = make([]int64, idx)
	for i := range cfg.Balances {
		cfg.Balances[i] = 1_000_000_000
		if g.stretch {
			cfg.Balances[i] = 500_000_000_000_000_000 // 5e17: room for amounts above 2^53
		}
	}
	cfg.Balances[g.poor] = int64(g.pick(40))
	if g.chance(0.3) {
		cfg.Balances[g.consumers[0]] = int64(5 + g.pick(200))
	}
	// role mixing: sometimes an owner is also a consumer, a provider also a consumer
	if g.chance(0.3) {
		g.consumers = append(g.consumers, g.owners[0])
	}
	if g.chance(0.3) {
		g.consumers = append(g.consumers, g.providers[0])
	}
	if g.chance(0.3) {
		g.owners = append(g.owners, g.providers[len(g.providers)-1]) // a provider that also owns other providers
	}

	cfg.WhaleAccount = -1
	if prop == "C20" && g.chance(0.1) {
		// amounts beyond 2^63 (deposits of 10^19 and more): only here, where no money oracle is armed
		cfg.WhaleAccount = g.owners[0]
		cfg.WhaleBalance = "500000000000000000000"
		g.whale = true
	}
	cfg.InitialHeight = 1
	if g.chance(prof.BigInitialHeight) {
		cfg.InitialHeight = pickI64(g, []int64{2, 1000, 1 << 32, 1<<62 + 12345})
	}
	cfg.GenesisTime = 1_600_000_000 + int64(g.pick(1000))
	cfg.MaxRequestTimeout = pickI64(g, []int64{1, 2, 3, 5, 5, 8, 12, 100})
	if g.stretch {
		cfg.MaxRequestTimeout = pickI64(g, []int64{40, 100, 100})
	}
	cfg.MinDepositMultiple = pickI64(g, []int64{1, 2, 10, 200, 1000})
	cfg.MinDeposit = pickI64(g, []int64{1, 10, 6000})
	cfg.ServiceFeeTax = pickStr(g, []string{"0", "0.01", "0.1", "0.1", "0.5", "0.999999"})
	cfg.SlashFraction = pickStr(g, []string{"0", "0.001", "0.001", "0.1", "0.5", "1"})
	cfg.ArbitrationNs = pickI64(g, durations)
	cfg.ComplaintNs = pickI64(g, durations)
	cfg.Replicas = prof.Replicas
	if thorough && prop == "C20" && g.chance(0.3) {
		cfg.Replicas = 3
	}

	g.faults = map[string]bool{}
	if !g.chance(prof.FaultFree) {
		for f := range prof.Faults {
			g.faults[f] = true
		}
		// swarm: switch off a random subset
		for _, f := range baseFaults {
			if g.faults[f] && g.chance(0.25) {
				delete(g.faults, f)
			}
		}
	} else {
		// even fault-free runs of these profiles keep their defining dimension
		for _, f := range []string{"export", "expcont", "crash"} {
			if prof.Faults[f] {
				g.faults[f] = true
			}
		}
	}

	g.useModSvcCalls = g.chance(prof.ModSvcCalls)
	cfg.ModuleService = g.useModSvcCalls || g.chance(0.25)
	// multi-token dimension (DESIGN §10.8): providers may publish prices in tokens other than the base denomination; the
	// fee is then converted at the rate of the "oracle" module service's feed, which moves and fails between blocks
	g.mrng = rand.New(rand.NewSource(rs ^ 0x6d756c7469746f6b))
	if prof.MultiToken > 0 && g.mrng.Float64() < prof.MultiToken {
		g.multi = true
		cfg.MultiToken = true
		cfg.ModuleService = true
		cfg.Rates = map[string]string{}
		for _, pair := range []string{"ugold-stake", "silver-stake"} {
			if g.mrng.Float64() < 0.85 {
				cfg.Rates[pair] = ratePool[g.mrng.Intn(len(ratePool))]
			}
		}
	}
	if g.useModSvcCalls && g.mrng.Float64() < 0.4 {
		cfg.SysPrice = []string{"5stake", "2stake", "100stake", "1stake"}[g.mrng.Intn(4)]
	}
	g.useHugeFreq = g.chance(prof.HugeFreq)
	g.useModule = g.chance(prof.ModuleCtx)
	g.useExpCont = prof.Faults["expcont"] && g.chance(prof.ExpContRuns)
	if prop == "C20" && g.mrng.Float64() < 0.15 {
		// solo runs: one node, no lockstep replica; the chain is exported at zero height, restarted from the genesis file and
		// lives on — "cannot crash the chain" also holds for blocks processed on imported state
		cfg.Replicas = 1
		g.useExpCont = true
		g.faults["expcont"] = true
	}
	if g.useExpCont && prop != "C19" {
		// addresses that are not 20 bytes long make the exported genesis unreadable (known finding A20): keep them out
		// of the export runs of profiles that do not list that finding
		g.noRawAddrs = true
	}
	g.rawResponders = prop != "C19" && g.chance(0.7)

	// service names: a subset of the pool (prefix-related by construction)
	n := 2 + g.pick(3)
	perm := rng.Perm(len(svcNamePool))
	for i := 0; i < n; i++ {
		g.svcNames = append(g.svcNames, svcNamePool[perm[i]])
	}
	// non-signing provider addresses of various lengths
	if g.noRawAddrs {
		cp := *prof
		cp.PrefixAddrs = 0
		prof = &cp
		g.prof = prof
	}
	rawP := 0.6
	if g.noRawAddrs {
		rawP = 0
	}
	if prop == "C19" {
		rawP = 0.12 // addresses that are not 20 bytes long end an export run at once (known finding): keep them rare
	}
	if g.chance(rawP) {
		g.rawProvs = append(g.rawProvs, rawRef(pickBytes(g, 1+g.pick(40))))
	}
	if g.chance(prof.PrefixAddrs) {
		// one address is a strict byte-prefix of another, or of a key-holding provider
		base := acctAddr(g.providers[0])
		g.rawProvs = append(g.rawProvs, rawRef(base[:1+g.pick(19)]))
		if g.chance(0.5) {
			g.rawProvs = append(g.rawProvs, rawRef(append(append([]byte{}, base...), pickBytes(g, 1+g.pick(5))...)))
		}
		if g.chance(0.5) {
			b := pickBytes(g, 3)
			g.rawProvs = append(g.rawProvs, rawRef(b), rawRef(append(append([]byte{}, b...), 0x00, 0x01)))
		}
	}

	br := prof.Blocks
	if thorough {
		br = prof.BlocksThorough
	}
	g.nBlocks = br[0] + g.pick(br[1]-br[0]+1)
	if g.stretch {
		g.nBlocks = g.nBlocks*3/2 + 20
		marathon := 0.08
		if prop == "C16" || prop == "C17" || prop == "C18" {
			marathon = 0.2 // the properties about per-batch keys, scans and cleanup: batch counters beyond one byte matter most here
		}
		if (thorough && g.chance(0.3)) || g.chance(marathon) {
			g.nBlocks = 290 + g.pick(120) // long enough for the batch counter of an every-block context to pass 256
		}
	}
	cfg.DrainBlocks = 8
	if g.stretch {
		cfg.DrainBlocks = 34
	}
	if g.nBlocks >= 290 {
		// the marathon runs: nothing may disable the every-block context's provider on the way to batch 256+
		cfg.SlashFraction = pickStr(g, []string{"0", "0.001"})
		delete(g.faults, "params")
		delete(g.faults, "drop")
		delete(g.faults, "delay")
	}
	if cfg.MaxRequestTimeout <= 12 {
		cfg.DrainBlocks = int(cfg.MaxRequestTimeout) + 3
	}

	g.cfg = cfg
	g.x = NewExec(cfg)
	if g.multi && !cfg.MultiToken {
		g.multi = false
		g.x.stats.inc("multi_token_unavailable")
	}
	for f := range g.faults {
		g.x.stats.inc("enabled_" + f)
	}
	return g
}

func pickBytes(g *Gen, n int) []byte {
	b := make([]byte, n)
	for i := range b {
		b[i] = byte(g.rng.Intn(256))
	}
	return b
}
