#!/bin/bash
# Background false-alarm sweep on the unchanged tree: every property's quick check under several VERIF_SEED values.
# usage (from a vp run --with-repo snapshot): tools/sweep_clean.sh <tier> <workers> <seed>...
tier="$1"; shift; workers="$1"; shift
export VERIF_REPO="${VP_RUN_REPO:-/repo}" VERIF_WORKERS="$workers"
for s in "$@"; do
  for p in C01 C02 C03 C04 C05 C06 C07 C08 C09 C10 C11 C12 C13 C14 C15 C16 C17 C18 C19 C20; do
    VERIF_SEED=$s ./check.sh $p $tier > sweep.$p.$s.log 2>&1; rc=$?
    echo "seed=$s prop=$p tier=$tier rc=$rc $(grep -c '^VIOLATION' sweep.$p.$s.log) viol; $(grep -h 'runs=' sweep.$p.$s.log | tail -1 | cut -c1-160)"
    grep -h "^VIOLATION\|^violation:\|^INTERNAL\|nondeterminism" sweep.$p.$s.log | head -5
  done
done
