package main

// Ledgers (harness-side reference model), fed only by successful steps and observed diffs.

import (
	"bytes"
	"encoding/binary"
	"fmt"
	"sort"
	"time"

	"github.com/irismod/service/types"
)

type ReqInfo struct {
	ID        string
	Ctx       string
	Batch     uint64
	Provider  []byte
	Consumer  []byte
	Svc       string
	Fee       int64
	Super     bool
	IssuedAt  int64
	ExpiresAt int64
	Timeout   int64 // context timeout when issued
	Settlement string // "" | earned | refunded_bad | refunded_expired | expired_super
	SettledAt int64
	// Answered: a respond message for this request succeeded (whatever its output) — recorded from the message's
	// success alone, not from any marker or record the module keeps
	Answered   bool
	AnsweredAt int64
}

type BatchInfo struct {
	N        uint64
	StartH   int64
	Issued   bool // false = skipped
	Timeout  int64
	Freq     uint64
	NReq     int
	Threshold uint32 // module threshold in force when the batch started (ledger)
	HasThreshold bool
	// timeout/frequency the consumer (or owning module) had instructed when the batch started (ledger)
	LTimeout int64
	LFreq    uint64
	HasTF    bool
	DoneH    int64 // height at which the batch state went completed (0 = not yet)
	ExpiredH int64
}

type CtxEvent struct {
	H    int64
	Kind string // pause start update_tf update pausefunds kill
}

type CtxInfo struct {
	ID       string
	Ref      string
	Origin   string // user | module | modsvc
	CreatedAt int64
	Repeated bool
	MaxTotal int64
	EverUnlimited bool
	Batches  []BatchInfo
	Events   []CtxEvent
	Removed  bool
	RemovedAt int64
	Killed   bool
	// the final batch (counter == total) expired while the context was paused
	FinalExpiredWhilePaused bool
	HugeFreq bool
	CreatedRunning bool
	Consumer []byte
	// Threshold: response threshold in force according to the owning module's successful create/update calls
	Threshold    uint32
	HasThreshold bool
	// LTimeout/LFreq: timeout and frequency in force according to the successful create/update instructions the
	// harness itself saw (an update that names 0 leaves the value alone); HasTF false = not known (genesis, re-import)
	LTimeout int64
	LFreq    uint64
	HasTF    bool
}

type BindInfo struct {
	Svc      string
	Provider []byte
	Owner    []byte
	GenesisBelowMin bool
	// DisabledAt: block time of the step in which the binding became unavailable (the harness's own record of the
	// disabling time; zero if it was never observed to be disabled)
	DisabledAt   time.Time
	HasDisabledAt bool
	// BelowSinceParamChange: the binding was available and compliant until governance raised the minimum above its
	// deposit; no operation of the module is involved, so the C14 invariant exempts it until its owner touches it
	BelowSinceParamChange bool
}

type Tracker struct {
	cfg  *Config
	Reqs map[string]*ReqInfo
	Ctxs map[string]*CtxInfo
	ProviderOwner map[string][]byte // hex(provider) -> first owner
	Binds map[string]*BindInfo
	Vol  map[string]uint64 // hex(consumer)|svc|hex(provider)
	DefBytes map[string][]byte
	// all request ids ever issued (C18 collisions)
	AllReqIDs map[string]bool
	AllCtxIDs map[string]bool
	// ledgers are unreliable after an export-and-continue until re-based
	Generation int
	// withdrawal address in force per owner (hex), from successful set-withdraw-address messages / genesis
	WithdrawAddr map[string][]byte
}

func NewTracker(cfg *Config, genesis *Snap) *Tracker {
	t := &Tracker{cfg: cfg, Reqs: map[string]*ReqInfo{}, Ctxs: map[string]*CtxInfo{}, ProviderOwner: map[string][]byte{},
		Binds: map[string]*BindInfo{}, Vol: map[string]uint64{}, DefBytes: map[string][]byte{}, AllReqIDs: map[string]bool{}, AllCtxIDs: map[string]bool{}}
	t.WithdrawAddr = map[string][]byte{}
	t.rebase(genesis)
	return t
}

// rebase: take the given snapshot as the starting point (genesis or genesis re-import).
func (t *Tracker) rebase(s *Snap) {
	t.Reqs = map[string]*ReqInfo{}
	t.Vol = map[string]uint64{}
	for _, bk := range s.BindingKeys() {
		b := s.Bindings[bk]
		bi := &BindInfo{Svc: b.ServiceName, Provider: b.Provider, Owner: b.Owner}
		if hp, err := ParseHPricing(b.Pricing); err == nil {
			min := hp.MinDepositFor(coinsStake(s.Params.MinDeposit), s.Params.MinDepositMultiple)
			if b.Available && min.Cmp(bigInt(coinsStake(b.Deposit))) > 0 {
				bi.GenesisBelowMin = true
			}
		}
		if old, ok := t.Binds[bk]; ok {
			bi.GenesisBelowMin = old.GenesisBelowMin && bi.GenesisBelowMin
			bi.DisabledAt, bi.HasDisabledAt = old.DisabledAt, old.HasDisabledAt && !b.Available
			bi.BelowSinceParamChange = old.BelowSinceParamChange
		}
		t.Binds[bk] = bi
		if _, ok := t.ProviderOwner[hx(b.Provider)]; !ok {
			t.ProviderOwner[hx(b.Provider)] = b.Owner
		}
	}
	for o, w := range s.Withdraw {
		t.WithdrawAddr[o] = w
	}
	for name := range s.Defs {
		if _, ok := t.DefBytes[name]; !ok {
			t.DefBytes[name] = defBytes(s, name)
		}
	}
	for id, c := range s.Ctx {
		if ci, ok := t.Ctxs[id]; ok {
			// imported context: paused, no batch in flight; keep identity, restart history (heights start again)
			ci.Events = []CtxEvent{{H: s.Height, Kind: "reimport"}}
			ci.Batches = nil
			ci.CreatedAt = -1
			ci.CreatedRunning = false
			ci.Removed = false
			ci.HasTF = false
			continue
		}
		t.Ctxs[id] = &CtxInfo{ID: id, Origin: "genesis", Repeated: c.Repeated, MaxTotal: c.RepeatedTotal, Consumer: c.Consumer, EverUnlimited: c.RepeatedTotal < 0}
	}
}

func defBytes(s *Snap, name string) []byte {
	key := append([]byte{0x01}, []byte(name)...)
	i := sort.Search(len(s.Raw), func(i int) bool { return bytes.Compare(s.Raw[i].K, key) >= 0 })
	if i < len(s.Raw) && bytes.Equal(s.Raw[i].K, key) {
		return s.Raw[i].V
	}
	return nil
}

func (t *Tracker) Clone() *Tracker {
	n := &Tracker{cfg: t.cfg, Generation: t.Generation,
		Reqs: make(map[string]*ReqInfo, len(t.Reqs)), Ctxs: make(map[string]*CtxInfo, len(t.Ctxs)),
		ProviderOwner: make(map[string][]byte, len(t.ProviderOwner)), Binds: make(map[string]*BindInfo, len(t.Binds)),
		Vol: make(map[string]uint64, len(t.Vol)), DefBytes: make(map[string][]byte, len(t.DefBytes)),
		AllReqIDs: make(map[string]bool, len(t.AllReqIDs)), AllCtxIDs: make(map[string]bool, len(t.AllCtxIDs))}
	for k, v := range t.Reqs {
		c := *v
		n.Reqs[k] = &c
	}
	for k, v := range t.Ctxs {
		c := *v
		c.Batches = append([]BatchInfo{}, v.Batches...)
		c.Events = append([]CtxEvent{}, v.Events...)
		n.Ctxs[k] = &c
	}
	for k, v := range t.ProviderOwner {
		n.ProviderOwner[k] = v
	}
	for k, v := range t.Binds {
		c := *v
		n.Binds[k] = &c
	}
	for k, v := range t.Vol {
		n.Vol[k] = v
	}
	for k, v := range t.DefBytes {
		n.DefBytes[k] = v
	}
	for k := range t.AllReqIDs {
		n.AllReqIDs[k] = true
	}
	for k := range t.AllCtxIDs {
		n.AllCtxIDs[k] = true
	}
	n.WithdrawAddr = make(map[string][]byte, len(t.WithdrawAddr))
	for k, v := range t.WithdrawAddr {
		n.WithdrawAddr[k] = v
	}
	return n
}

func volKey(consumer []byte, svc string, provider []byte) string {
	return hx(consumer) + "|" + svc + "|" + hx(provider)
}

func reqMemoKey(ctxID string, batch uint64, provider []byte) string {
	return fmt.Sprintf("%s|%d|%s", ctxID, batch, hx(provider))
}

// splitReqID: the harness's own reading of a request id (context 40 | batch 8 | height 8 | index 2).
func splitReqID(id []byte) (ctx []byte, batch uint64, height int64, index int, ok bool) {
	if len(id) != 58 {
		return nil, 0, 0, 0, false
	}
	return id[:40], binary.BigEndian.Uint64(id[40:48]), int64(binary.BigEndian.Uint64(id[48:56])), int(int16(binary.BigEndian.Uint16(id[56:58]))), true
}

// Apply absorbs one step into the ledgers.
func (t *Tracker) Apply(x *Exec, r *StepRec) {
	pre, post := r.Pre, r.Post
	if r.Kind == "params" {
		for _, bk := range post.BindingKeys() {
			b := post.Bindings[bk]
			bi := t.Binds[bk]
			if bi == nil || !b.Available {
				continue
			}
			if hp, err := ParseHPricing(b.Pricing); err == nil {
				dep := bigInt(coinsStake(b.Deposit))
				oldMin := hp.MinDepositFor(coinsStake(pre.Params.MinDeposit), pre.Params.MinDepositMultiple)
				newMin := hp.MinDepositFor(coinsStake(post.Params.MinDeposit), post.Params.MinDepositMultiple)
				if dep.Cmp(oldMin) >= 0 && dep.Cmp(newMin) < 0 {
					bi.BelowSinceParamChange = true
				}
			}
		}
		return
	}
	if r.Kind == "msgfail" || r.Kind == "modfail" || r.Kind == "commit" || r.Kind == "begin" {
		return
	}
	if r.Kind == "msg" && r.Msg.T == "respond" {
		if m, ok := r.SdkMsg.(*types.MsgRespondService); ok {
			if ri := t.Reqs[hx(m.RequestId)]; ri != nil && !ri.Answered {
				ri.Answered = true
				ri.AnsweredAt = post.Height
			}
		}
	}
	for _, bk := range post.BindingKeys() {
		if bi := t.Binds[bk]; bi != nil && bi.BelowSinceParamChange {
			b := post.Bindings[bk]
			if !b.Available {
				bi.BelowSinceParamChange = false
			} else if hp, err := ParseHPricing(b.Pricing); err == nil &&
				bigInt(coinsStake(b.Deposit)).Cmp(hp.MinDepositFor(coinsStake(post.Params.MinDeposit), post.Params.MinDepositMultiple)) >= 0 {
				bi.BelowSinceParamChange = false
			}
		}
	}
	h := post.Height

	// new definitions
	for name := range post.Defs {
		if _, ok := t.DefBytes[name]; !ok {
			t.DefBytes[name] = defBytes(post, name)
		}
	}
	// new bindings / owners
	for _, bk := range post.BindingKeys() {
		if _, ok := t.Binds[bk]; !ok {
			b := post.Bindings[bk]
			t.Binds[bk] = &BindInfo{Svc: b.ServiceName, Provider: b.Provider, Owner: b.Owner}
			if _, ok := t.ProviderOwner[hx(b.Provider)]; !ok {
				t.ProviderOwner[hx(b.Provider)] = b.Owner
			}
		}
	}

	if r.Kind == "msg" && r.Msg.T == "setwd" {
		t.WithdrawAddr[hx(r.Sender)] = resolveAddr(r.Msg.To)
	}
	// availability changes: remember when a binding was disabled
	for _, bk := range post.BindingKeys() {
		nb := post.Bindings[bk]
		bi := t.Binds[bk]
		if bi == nil {
			continue
		}
		ob, existed := pre.Bindings[bk]
		if existed && ob.Available && !nb.Available {
			bi.DisabledAt, bi.HasDisabledAt = post.Time, true
		}
		if nb.Available {
			bi.HasDisabledAt = false
		}
	}

	// new contexts
	for _, id := range post.CtxIDs() {
		if _, ok := pre.Ctx[id]; ok {
			continue
		}
		if _, ok := t.Ctxs[id]; ok {
			continue
		}
		c := post.Ctx[id]
		ci := &CtxInfo{ID: id, CreatedAt: h, Repeated: c.Repeated, MaxTotal: c.RepeatedTotal, Consumer: c.Consumer,
			CreatedRunning: c.State == types.RUNNING, EverUnlimited: c.RepeatedTotal < 0}
		switch {
		case r.Kind == "mod":
			ci.Origin = "module"
			ci.Ref = ctxRefOf("mod-"+r.Mod.Label, 0)
			ci.Threshold, ci.HasThreshold = r.Mod.Threshold, true
			if r.Mod.T == "create" && r.Mod.Repeated && r.Mod.Timeout > 0 {
				ci.LTimeout, ci.LFreq, ci.HasTF = r.Mod.Timeout, r.Mod.Freq, true
				if ci.LFreq == 0 {
					ci.LFreq = uint64(ci.LTimeout)
				}
			}
		case r.Kind == "msg" && r.Msg.T == "call":
			if r.Msg.Repeated && r.Msg.Timeout > 0 {
				ci.LTimeout, ci.LFreq, ci.HasTF = r.Msg.Timeout, r.Msg.Freq, true
				if ci.LFreq == 0 {
					ci.LFreq = uint64(ci.LTimeout)
				}
			}
			ci.Origin = "user"
			if x.cfg.ModuleService && r.Msg.Svc == types.OraclePriceServiceName {
				ci.Origin = "modsvc"
			}
			ci.Ref = ctxRefOf(r.Tx.Label, r.MsgIdx)
		default:
			ci.Origin = "unknown"
		}
		if c.RepeatedFrequency >= 1<<62 {
			ci.HugeFreq = true
		}
		t.Ctxs[id] = ci
		t.AllCtxIDs[id] = true
		if ci.Ref != "" {
			x.memoCtx[ci.Ref] = id
		}
	}

	if r.Kind == "mod" && r.Mod.T == "update" && r.Mod.Threshold > 0 {
		if ci := t.Ctxs[hx(x.resolveCtx(r.Mod.Ctx))]; ci != nil && ci.Origin == "module" {
			ci.Threshold, ci.HasThreshold = r.Mod.Threshold, true
		}
	}
	// instructed timeout / frequency (ledger): a successful update that names a value changes it, 0 leaves it alone
	{
		var ci *CtxInfo
		var nt int64
		var nf uint64
		switch {
		case r.Kind == "msg" && r.Msg.T == "updctx":
			ci, nt, nf = t.Ctxs[hx(x.resolveCtx(r.Msg.Ctx))], r.Msg.Timeout, r.Msg.Freq
		case r.Kind == "mod" && r.Mod.T == "update":
			ci, nt, nf = t.Ctxs[hx(x.resolveCtx(r.Mod.Ctx))], r.Mod.Timeout, r.Mod.Freq
		}
		if ci != nil && ci.HasTF {
			ot, of := ci.LTimeout, ci.LFreq
			if nt > 0 {
				ci.LTimeout = nt
			}
			if nf > 0 {
				ci.LFreq = nf
			}
			if ot != ci.LTimeout || of != ci.LFreq {
				ci.Events = append(ci.Events, CtxEvent{h, "update_tf"})
			}
		}
	}
	// context changes
	for _, id := range pre.CtxIDs() {
		ci := t.Ctxs[id]
		if ci == nil {
			continue
		}
		pc := pre.Ctx[id]
		qc, still := post.Ctx[id]
		if !still {
			ci.Removed = true
			ci.RemovedAt = h
			if n := len(ci.Batches); n > 0 && ci.Batches[n-1].ExpiredH == 0 {
				ci.Batches[n-1].ExpiredH = h
			}
			continue
		}
		if qc.RepeatedTotal > ci.MaxTotal {
			ci.MaxTotal = qc.RepeatedTotal
		}
		if qc.RepeatedTotal < 0 {
			ci.EverUnlimited = true
		}
		if qc.RepeatedFrequency >= 1<<62 {
			ci.HugeFreq = true
		}
		if pc.State != qc.State {
			switch {
			case qc.State == types.PAUSED && r.Kind == "end":
				ci.Events = append(ci.Events, CtxEvent{h, "pausefunds"})
			case qc.State == types.PAUSED:
				ci.Events = append(ci.Events, CtxEvent{h, "pause"})
			case qc.State == types.RUNNING:
				ci.Events = append(ci.Events, CtxEvent{h, "start"})
			case qc.State == types.COMPLETED:
				ci.Events = append(ci.Events, CtxEvent{h, "kill"})
				ci.Killed = true
			}
		}
		if !ci.HasTF && (pc.Timeout != qc.Timeout || pc.RepeatedFrequency != qc.RepeatedFrequency) {
			ci.Events = append(ci.Events, CtxEvent{h, "update_tf"})
		}
		if qc.BatchCounter != pc.BatchCounter {
			nreq := 0
			for _, rid := range post.ReqIDs() {
				q := post.Req[rid]
				if hx(q.RequestContextId) == id && q.RequestContextBatchCounter == qc.BatchCounter {
					nreq++
				}
			}
			ci.Batches = append(ci.Batches, BatchInfo{N: qc.BatchCounter, StartH: h, Issued: nreq > 0, Timeout: qc.Timeout, Freq: qc.RepeatedFrequency, NReq: nreq,
				Threshold: ci.Threshold, HasThreshold: ci.HasThreshold, LTimeout: ci.LTimeout, LFreq: ci.LFreq, HasTF: ci.HasTF})
		}
		if n := len(ci.Batches); n > 0 {
			b := &ci.Batches[n-1]
			if pc.BatchState == types.BATCHRUNNING && qc.BatchState == types.BATCHCOMPLETED && b.DoneH == 0 {
				b.DoneH = h
			}
			if _, had := pre.ExpH[id]; had {
				if _, has := post.ExpH[id]; !has && b.ExpiredH == 0 {
					b.ExpiredH = h
					if qc.State == types.PAUSED && qc.Repeated && qc.RepeatedTotal > 0 && int64(qc.BatchCounter) >= qc.RepeatedTotal {
						ci.FinalExpiredWhilePaused = true
					}
				}
			}
		}
	}
	// contexts created in this very step may already have a batch (module-service call)
	for _, id := range post.CtxIDs() {
		if _, ok := pre.Ctx[id]; ok {
			continue
		}
		ci := t.Ctxs[id]
		qc := post.Ctx[id]
		if ci != nil && qc.BatchCounter > 0 && len(ci.Batches) == 0 {
			ci.Batches = append(ci.Batches, BatchInfo{N: qc.BatchCounter, StartH: h, Issued: true, Timeout: qc.Timeout, Freq: qc.RepeatedFrequency})
		}
	}

	// new requests
	for _, rid := range post.ReqIDs() {
		if _, ok := pre.Req[rid]; ok {
			continue
		}
		if _, ok := t.Reqs[rid]; ok {
			continue
		}
		q := post.Req[rid]
		cid := hx(q.RequestContextId)
		ri := &ReqInfo{ID: rid, Ctx: cid, Batch: q.RequestContextBatchCounter, Provider: q.Provider,
			Fee: coinsStake(q.ServiceFee), IssuedAt: q.RequestHeight, ExpiresAt: q.ExpirationHeight}
		if c, ok := post.Ctx[cid]; ok {
			ri.Consumer = c.Consumer
			ri.Svc = c.ServiceName
			ri.Super = c.SuperMode
			ri.Timeout = c.Timeout
		}
		t.Reqs[rid] = ri
		t.AllReqIDs[rid] = true
		x.memoReq[reqMemoKey(cid, ri.Batch, ri.Provider)] = rid
		// issued and answered within one step (a call to a module-reserved service is served synchronously by the
		// module that registered it): the request never was pending between two steps, its response is already there
		if _, ok := post.Resp[rid]; ok && !post.Active15[rid] && r.Kind == "msg" && r.Msg.T == "call" {
			ri.Answered, ri.AnsweredAt, ri.SettledAt = true, h, h
			if servedOutputKind(r, rid) == "malformed" {
				ri.Settlement = "refunded_bad"
			} else {
				ri.Settlement = "earned"
			}
			t.Vol[volKey(ri.Consumer, ri.Svc, ri.Provider)]++
		}
	}

	// settlements: marker disappeared
	for _, rid := range sortedBoolKeys(pre.Active15) {
		if post.Active15[rid] {
			continue
		}
		ri := t.Reqs[rid]
		if ri == nil {
			continue
		}
		if ri.Settlement != "" {
			continue
		}
		ri.SettledAt = h
		switch {
		case r.Kind == "msg" && (r.Msg.T == "respond" || r.Msg.T == "call"):
			if resp, ok := post.Resp[rid]; ok && outputKind(resp.Output) == "malformed" {
				ri.Settlement = "refunded_bad"
			} else {
				ri.Settlement = "earned"
			}
			t.Vol[volKey(ri.Consumer, ri.Svc, ri.Provider)]++
		case r.Kind == "end":
			if ri.Super {
				ri.Settlement = "expired_super"
			} else {
				ri.Settlement = "refunded_expired"
			}
		default:
			ri.Settlement = "vanished"
		}
	}
}

func sortedBoolKeys(m map[string]bool) []string {
	out := make([]string, 0, len(m))
	for k := range m {
		out = append(out, k)
	}
	sort.Strings(out)
	return out
}
