#!/bin/bash
# Statement coverage of the module's own code (root package, keeper, types; generated *.pb.go excluded) reached by the
# simulator: builds an instrumented svcsim against /repo's working tree and runs <runs> runs of every profile.
# usage: tools/coverage.sh [runs-per-property (default 40)] [seed]   — prints a per-file summary and the uncovered blocks
set -u
runs="${1:-40}"; seed="${2:-7}"
export GOFLAGS=-mod=mod GOPROXY=off GOSUMDB=off GOTOOLCHAIN=local CGO_ENABLED=0 VERIF_ROOT=/verif
tmp=$(mktemp -d /tmp/vcov.XXXXXX); trap 'rm -rf "$tmp"' EXIT
cd /verif/sim || exit 2
sed 's/^go 1.14/go 1.20/' go.mod > "$tmp/cov.mod"; cp go.sum "$tmp/cov.sum"
go build -modfile="$tmp/cov.mod" -cover -coverpkg=verif/sim,github.com/irismod/service,github.com/irismod/service/keeper,github.com/irismod/service/types -o "$tmp/svcsim.cover" . || exit 2
mkdir "$tmp/data"
for p in C01 C02 C03 C04 C05 C06 C07 C08 C09 C10 C11 C12 C13 C14 C15 C16 C17 C18 C19 C20; do
  GOCOVERDIR="$tmp/data" "$tmp/svcsim.cover" worker -prop $p -seed "$seed" -from 0 -to "$runs" > /dev/null 2>&1 &
  while [ "$(jobs -r | wc -l)" -ge 10 ]; do sleep 1; done
done
wait
go tool covdata textfmt -i="$tmp/data" -o "$tmp/cov.txt"
grep -v "verif/sim\|pb.go\|pb.gw.go" "$tmp/cov.txt" > "$tmp/cov2.txt"
for f in abci.go genesis.go handler.go keeper/ types/; do
  grep "service/$f" "$tmp/cov2.txt" | awk -v f=$f '{n=$(NF-1); c=$NF; tot+=n; if(c>0) cov+=n} END{printf "%-12s statements=%4d covered=%4d (%.1f%%)\n", f, tot, cov, 100*cov/tot}'
done
echo "--- uncovered blocks in abci.go / handler.go / genesis.go / keeper (file:line: source) ---"
cd /repo
grep "service/keeper/\|service/abci.go\|service/handler.go\|service/genesis.go" "$tmp/cov2.txt" | awk '$NF==0' | sed 's/github.com\/irismod\/service\///' | awk '{print $1}' | while IFS= read -r loc; do f=${loc%%:*}; r=${loc#*:}; s=${r%%.*}; echo "$f:$s: $(sed -n "${s}p" $f | sed 's/^[ \t]*//' | cut -c1-110)"; done | sort -t: -k1,1 -k2,2n | uniq
