#!/usr/bin/env python3
"""Rewrites the seed table of DESIGN.md §10.5 from /verif/seeded/*/meta.json (between the table header and the next '####')."""
import json, glob, re
rows=[]
def key(f):
    m=json.load(open(f)); i=m['id']
    return (re.sub(r'\d+.*','',i), int(re.search(r'\d+',i).group()) if re.search(r'\d+',i) else 0, i)
for f in sorted(glob.glob('/verif/seeded/*/meta.json'), key=key):
    m=json.load(open(f))
    det='yes' if m['detected'] else ('obsolete' if m.get('obsolete_on_current_tree') else 'NO')
    if m['detected'] and m.get('first_pass_detected') is False: det='yes (after strengthening)'
    rows.append(f"| {m['id']} | {m['property']} | {', '.join(m['files_changed'])} | {det} | {', '.join(m['detected_by_rules'])} | {m.get('runs_until_stop')} | {m.get('wall_s')} |")
hdr="| seed | property | files changed | detected by target quick check | rule(s) | runs until stop | wall s |\n|---|---|---|---|---|---|---|\n"
s=open('/verif/DESIGN.md').read()
a=s.index("| seed | files changed | detected by target quick check") if "| seed | files changed | detected by target quick check" in s else s.index("| seed | property | files changed | detected by target quick check")
b=s.index("#### Rule coverage")
s=s[:a]+hdr+"\n".join(rows)+"\n\n"+s[b:]
open('/verif/DESIGN.md','w').write(s)
print(len(rows),"rows;", sum('| NO |' in r for r in rows),"NO")
