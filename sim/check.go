package main

// check: the registered command. Fans out to worker processes (recycled: the SDK's IAVL iterators are
// goroutine-backed and some keeper scans never close them), aggregates coverage, minimises and re-verifies
// violations in a fresh process, writes the evidence file.

import (
	"runtime/debug"
	"bufio"
	"crypto/sha256"
	"encoding/hex"
	"encoding/json"
	"flag"
	"fmt"
	"io/ioutil"
	"os"
	"os/exec"
	"path/filepath"
	"regexp"
	"runtime"
	"sort"
	"strconv"
	"strings"
	"sync"
	"time"
)

var verifRoot = func() string {
	if v := os.Getenv("VERIF_ROOT"); v != "" {
		return v
	}
	return "/verif"
}()

type KnownFinding struct {
	ID          string            `json:"id"`
	Property    string            `json:"property"`
	Rule        string            `json:"rule"`       // exact rule name, or
	RuleRegex   string            `json:"rule_regex,omitempty"` // a regular expression on the rule name
	Attrs       map[string]string `json:"attrs,omitempty"`
	Status      string            `json:"status"` // known | fixed
	Commit      string            `json:"commit,omitempty"`
	Description string            `json:"description"`
}

func loadKnown() []KnownFinding {
	b, err := ioutil.ReadFile(filepath.Join(verifRoot, "known_findings.json"))
	if err != nil {
		return nil
	}
	var f struct {
		Findings []KnownFinding `json:"findings"`
	}
	if err := json.Unmarshal(b, &f); err != nil {
		fmt.Fprintln(os.Stderr, "known_findings.json unreadable:", err)
		os.Exit(2)
	}
	return f.Findings
}

func matchKnown(kf []KnownFinding, v *Violation) *KnownFinding {
	for i := range kf {
		k := &kf[i]
		if k.Status != "known" || k.Property != v.Property {
			continue
		}
		if k.RuleRegex != "" {
			if ok, _ := regexp.MatchString("^(?:"+k.RuleRegex+")$", v.Rule); !ok {
				continue
			}
		} else if k.Rule != v.Rule {
			continue
		}
		ok := true
		for a, val := range k.Attrs {
			if v.Attrs[a] != val {
				ok = false
			}
		}
		if ok {
			return k
		}
	}
	return nil
}

// WorkerOut: one JSON line per chunk (summary) or per violation.
type WorkerOut struct {
	Kind   string `json:"kind"` // summary | violation | known | internal
	Run    int    `json:"run"`
	Runs   int    `json:"runs,omitempty"`
	Steps  int    `json:"steps,omitempty"`
	Blocks int    `json:"blocks,omitempty"`
	Txs    int    `json:"txs,omitempty"`
	SimNs  float64 `json:"sim_ns,omitempty"`
	C      map[string]int `json:"c,omitempty"`
	States []string `json:"states,omitempty"`
	Trans  []string `json:"trans,omitempty"`
	Prints []string `json:"prints,omitempty"` // fingerprints of non-trivial runs
	Digests map[string]string `json:"digests,omitempty"` // run -> final digest (determinism cross-check)
	Sample *Trace `json:"sample,omitempty"`
	Viol   *Violation `json:"viol,omitempty"`
	Replay string `json:"replay,omitempty"`
	KnownID string `json:"known_id,omitempty"`
	Err    string `json:"err,omitempty"`
}

var relevantProbes = map[string][]string{
	"C01": {"g_requests_issued", "g_resp_valid", "g_requests_expired", "ok_withdraw"},
	"C02": {"g_resp_valid", "g_resp_malformed", "g_requests_expired"},
	"C03": {"ok_refund", "ok_enable", "ok_update", "g_slash"},
	"C04": {"g_slash", "g_requests_expired", "g_resp_malformed"},
	"C05": {"fail_update", "fail_disable", "fail_pause", "fail_respond", "fail_withdraw", "fail_kill", "fail_refund", "fail_bind"},
	"C06": {"g_requests_issued", "g_batch_skipped", "g_paused_for_funds"},
	"C07": {"g_requests_issued"},
	"C08": {"g_resp_valid", "fail_respond", "g_requests_expired"},
	"C09": {"ok_pause", "ok_start", "ok_kill", "ok_updctx", "g_paused_for_funds"},
	"C10": {"g_second_batch", "ok_pause", "ok_start"},
	"C11": {"g_requests_issued", "ok_start", "ok_pause", "ok_kill"},
	"C12": {"g_callback", "g_resp_valid"},
	"C13": {"ok_withdraw", "ok_setwd"},
	"C14": {"ok_update", "ok_enable", "fail_bind", "fail_update", "fail_enable", "g_slash"},
	"C15": {"ok_bind", "ok_define", "fail_define", "fail_bind"},
	"C16": {"g_requests_expired", "g_ctx_removed", "g_batch_skipped"},
	"C17": {"g_requests_issued", "ok_bind"},
	"C18": {"g_requests_issued", "ok_call"},
	"C19": {"probe_export", "probe_export_continue_ok"},
	"C20": {"fault_crash_restart", "boundary_msg", "g_requests_issued"},
}

// requiredProbes: reach probes that a healthy profile of the property fires in every batch of runs (DESIGN §7 table);
// a probe stuck at zero is reported in the evidence and on stderr (a defect of the profile, not of the code under test).
var requiredProbes = map[string][]string{
	"C01": {"g_requests_issued", "g_requests_expired", "g_resp_malformed", "ok_withdraw", "g_paused_for_funds", "fault_export_and_continue"},
	"C02": {"g_resp_valid", "g_resp_malformed", "g_resp_none", "g_requests_expired", "probe_tax_positive", "probe_tax_zero", "probe_refund_bad_output", "ok_withdraw"},
	"C03": {"probe_refund_ok", "probe_refund_exact_instant", "ok_enable", "ok_update", "g_slash", "fault_export_and_continue", "fail_refund"},
	"C04": {"probe_multi_slash_one_block", "probe_slash_disable", "probe_slash_disabled_binding", "probe_slash_refunded_binding", "g_resp_malformed"},
	"C05": {"c05_refused_update", "c05_refused_disable", "c05_refused_enable", "c05_refused_refund", "c05_refused_withdraw", "c05_refused_pause", "c05_refused_start", "c05_refused_kill", "c05_refused_updctx", "c05_refused_respond", "c05_refused_bind", "c05_refused_define", "c05_ok_update", "c05_ok_pause", "c05_ok_respond", "ok_mod_create", "fault_export_and_continue"},
	"C06": {"probe_batch_issued", "probe_batch_skipped", "probe_paused_for_funds", "probe_issued_subset"},
	"C07": {"probe_priced_request", "probe_time_window_start", "probe_time_window_end", "probe_time_window_inside", "probe_volume_at_threshold", "probe_volume_above_threshold", "probe_zero_price", "probe_super_request"},
	"C08": {"probe_response_accepted", "probe_response_at_expiry_height", "probe_response_refused_not_pending", "probe_response_refused_stranger", "probe_response_refused_unknown"},
	"C09": {"probe_ctx_pause_ok", "probe_ctx_start_ok", "probe_ctx_kill_ok", "probe_ctx_updctx_ok", "g_paused_for_funds"},
	"C10": {"probe_cadence_checked", "probe_freq_eq_timeout", "probe_first_batch_checked", "targeted_pause_last_batch", "g_second_batch"},
	"C11": {"ok_start", "ok_pause", "ok_kill", "g_requests_issued", "fault_export_and_continue"},
	"C12": {"probe_callback_with_error", "probe_callback_without_error", "probe_callback_on_skip", "probe_state_callback"},
	"C13": {"probe_withdraw_provider_mode", "probe_withdraw_owner_mode", "probe_withdraw_to_other_address", "probe_withdraw_paid", "probe_odd_length_provider_response"},
	"C14": {"ok_update", "ok_enable", "fail_update", "fail_enable", "fail_bind", "g_slash", "fault_deposit_param_change", "probe_below_minimum_after_param_raise"},
	"C15": {"probe_define_ok", "probe_listing_checked", "fail_define", "fail_bind"},
	"C16": {"probe_batch_expired_cleaned", "probe_finished_context_removed", "g_batch_skipped"},
	"C17": {"probe_query_definition", "probe_query_bindings", "probe_query_requests", "probe_query_responses", "probe_query_earned_fees", "probe_query_nonexisting", "probe_query_request", "probe_query_response"},
	"C18": {"probe_context_id_checked", "probe_request_id_checked", "probe_scans_checked"},
	"C19": {"probe_export", "probe_export_with_pending_requests", "probe_export_with_earnings", "probe_export_with_withdraw_address", "probe_export_ctx_running", "probe_export_ctx_paused", "probe_export_ctx_completed", "probe_export_roundtrip_ok", "probe_export_continue_ok"},
	"C20": {"fault_crash_restart", "fault_crash_mid_block", "boundary_msg", "g_requests_issued"},
}

func nontrivial(prop string, st *RunStats) bool {
	for _, p := range relevantProbes[prop] {
		if st.C[p] > 0 {
			return true
		}
	}
	return false
}

func fingerprint(g *Gen) string {
	h := sha256.New()
	for i := range g.ops {
		o := &g.ops[i]
		fmt.Fprintf(h, "%s|", o.K)
		if o.Tx != nil {
			for _, m := range o.Tx.Msgs {
				fmt.Fprintf(h, "%s,", m.T)
			}
		}
	}
	fmt.Fprintf(h, "%s", g.x.cur.Digest())
	return hex.EncodeToString(h.Sum(nil))[:24]
}

func cmdWorker(args []string) {
	fs := flag.NewFlagSet("worker", flag.ExitOnError)
	prop := fs.String("prop", "C01", "")
	seed := fs.Int64("seed", 1, "")
	from := fs.Int("from", 0, "")
	to := fs.Int("to", 1, "")
	thorough := fs.Bool("thorough", false, "")
	wantSample := fs.Bool("sample", false, "")
	fs.Parse(args)
	known := loadKnown()
	out := bufio.NewWriter(os.Stdout)
	defer out.Flush()
	emit := func(w *WorkerOut) {
		b, _ := json.Marshal(w)
		out.Write(b)
		out.WriteByte('\n')
		out.Flush()
	}
	sum := &WorkerOut{Kind: "summary", C: map[string]int{}, Digests: map[string]string{}}
	states := map[string]bool{}
	trans := map[string]bool{}
	for run := *from; run < *to; run++ {
		var g *Gen
		perr := func() (msg string) {
			defer func() {
				if r := recover(); r != nil {
					msg = fmt.Sprintf("%v", r)
					if len(msg) > 2000 {
						msg = msg[:2000]
					}
					// where in the harness (the frames of this package), for the report
					var fr []string
					for _, l := range strings.Split(string(debug.Stack()), "\n") {
						if strings.Contains(l, "/verif/sim/") || strings.Contains(l, "/sim/") && strings.Contains(l, ".go:") {
							fr = append(fr, strings.TrimSpace(l))
						}
						if len(fr) >= 6 {
							break
						}
					}
					msg += " @ " + strings.Join(fr, " < ")
				}
			}()
			g, _ = oneRun(*seed, *prop, run, *thorough, false)
			return ""
		}()
		if perr != "" {
			emit(&WorkerOut{Kind: "internal", Run: run, Err: perr})
			continue
		}
		st := g.x.stats
		sum.Runs++
		sum.Steps += st.Steps
		sum.Blocks += st.Blocks
		sum.Txs += st.Txs
		sum.SimNs += float64(g.simT)
		for k, v := range st.C {
			sum.C[k] += v
		}
		for k := range st.States {
			states[k] = true
		}
		for k := range st.Trans {
			trans[k] = true
		}
		if nontrivial(*prop, st) {
			sum.Prints = append(sum.Prints, fingerprint(g))
		}
		if run%16 == 0 {
			sum.Digests[strconv.Itoa(run)] = g.x.cur.Digest()
		}
		if *wantSample && sum.Sample == nil && len(g.ops) > 20 {
			n := minInt(len(g.ops), 40)
			sum.Sample = &Trace{Config: g.cfg, Ops: g.ops[:n], Note: fmt.Sprintf("first %d of %d ops of run %d", n, len(g.ops), run)}
		}
		if g.x.internalErr != "" {
			emit(&WorkerOut{Kind: "internal", Run: run, Err: g.x.internalErr})
			continue
		}
		v := firstArmed(g.cfg, g.x.violations)
		if v == nil && *prop == "C20" && g.x.finished && ((*thorough && run%3 == 0) || run%8 == 0) {
			// the same trace once more, split over two fresh OS processes at a block boundary
			if bs := blockBoundaries(g.ops); len(bs) > 4 {
				cut := bs[len(bs)/3+(run/8)%(len(bs)/3)]
				self, _ := os.Executable()
				tr := &Trace{Config: g.cfg, Ops: g.ops, Finish: false, SplitCut: cut}
				d, err := splitCheck(self, tr, cut)
				sum.C["fault_process_restart_split"]++
				if err != nil {
					emit(&WorkerOut{Kind: "internal", Run: run, Err: "split execution: " + err.Error()})
				} else if d != "" {
					dir := filepath.Join(verifRoot, "replays")
					os.MkdirAll(dir, 0755)
					path := filepath.Join(dir, fmt.Sprintf("%s-%d-%d-split.json", *prop, *seed, run))
					tr.Expect = &Violation{Property: "C20", Rule: "process_restart_divergence", Detail: d}
					tr.Note = "C20 process-restart case: ops[0:split_cut] run in one fresh process, the rest in another on the dumped database"
					if err := tr.Save(path); err == nil {
						emit(&WorkerOut{Kind: "violation", Run: run, Viol: tr.Expect, Replay: path})
						break
					}
				}
			}
		}
		if v == nil {
			continue
		}
		if k := matchKnown(known, v); k != nil {
			sum.C["known_finding_"+k.ID]++
			emit(&WorkerOut{Kind: "known", Run: run, Viol: v, KnownID: k.ID})
			continue
		}
		// minimise, write the replay file, confirm in-process
		tr := &Trace{Config: g.cfg, Ops: g.ops, Finish: g.x.finished}
		min := Minimise(tr, v, 90*time.Second)
		if min.Expect == nil {
			// the full trace must at least reproduce
			n := 1
			if flakyByNature(v) {
				n = 12
			}
			full := safeExecTries(tr, n)
			if full == nil || firstArmed(g.cfg, full.Violations) == nil {
				emit(&WorkerOut{Kind: "internal", Run: run, Err: "violation did not reproduce on re-execution of its own trace: " + v.Sig()})
				continue
			}
			min = tr
			min.Expect = firstArmed(g.cfg, full.Violations)
		}
		dir := filepath.Join(verifRoot, "replays")
		os.MkdirAll(dir, 0755)
		path := filepath.Join(dir, fmt.Sprintf("%s-%d-%d.json", *prop, *seed, run))
		min.Note = fmt.Sprintf("minimised from %d ops (run %d, seed %d); %s", len(g.ops), run, *seed, min.Expect.Detail)
		if err := min.Save(path); err != nil {
			emit(&WorkerOut{Kind: "internal", Run: run, Err: err.Error()})
			continue
		}
		emit(&WorkerOut{Kind: "violation", Run: run, Viol: min.Expect, Replay: path})
		break // one violation ends this worker's chunk; the parent stops the batch
	}
	for k := range states {
		sum.States = append(sum.States, k)
	}
	for k := range trans {
		sum.Trans = append(sum.Trans, k)
	}
	sort.Strings(sum.States)
	sort.Strings(sum.Trans)
	emit(sum)
}

type agg struct {
	mu      sync.Mutex
	runs, steps, blocks, txs int
	simNs   float64
	c       map[string]int
	states, trans, prints map[string]bool
	digests map[string]string
	sample  *Trace
	viols   []WorkerOut
	known   map[string]int
	knownEx map[string]string
	internal []string
}

func envInt(name string, def int) int {
	if v := os.Getenv(name); v != "" {
		if n, err := strconv.Atoi(v); err == nil {
			return n
		}
	}
	return def
}

func cmdCheck(args []string) {
	if len(args) < 2 {
		usage()
	}
	prop, tier := args[0], args[1]
	if _, ok := oracleTable[prop]; !ok && prop != "C19" && prop != "C20" {
		fmt.Fprintln(os.Stderr, "unknown property", prop)
		os.Exit(2)
	}
	thorough := tier == "thorough"
	seed := int64(1)
	if v := os.Getenv("VERIF_SEED"); v != "" {
		if n, err := strconv.ParseInt(v, 10, 64); err == nil {
			seed = n
		}
	}
	workers := envInt("VERIF_WORKERS", minInt(runtime.NumCPU(), 16))
	chunk := envInt("VERIF_CHUNK", 20)
	defRuns := 1200
	if prop == "C17" {
		defRuns = 400 // every block asks ~100 queries on four routes
	}
	if prop == "C20" {
		defRuns = 700 // two lockstep replicas, crash replays and the two-process restarts
	}
	quickRuns := envInt("VERIF_RUNS", defRuns)
	budget := time.Duration(envInt("VERIF_BUDGET_S", 900)) * time.Second
	if !thorough {
		budget = time.Duration(envInt("VERIF_BUDGET_S", 240)) * time.Second
	}
	self, _ := os.Executable()
	known := loadKnown()
	t0 := time.Now()
	fmt.Printf("svcsim check property=%s tier=%s VERIF_SEED=%d workers=%d\n", prop, tier, seed, workers)

	a := &agg{c: map[string]int{}, states: map[string]bool{}, trans: map[string]bool{}, prints: map[string]bool{}, digests: map[string]string{}, known: map[string]int{}, knownEx: map[string]string{}}
	var next int
	var nextMu sync.Mutex
	stop := false
	takeChunk := func() (int, int, bool) {
		nextMu.Lock()
		defer nextMu.Unlock()
		if stop {
			return 0, 0, false
		}
		if !thorough && next >= quickRuns {
			return 0, 0, false
		}
		if time.Since(t0) > budget {
			return 0, 0, false
		}
		f := next
		next += chunk
		t := next
		if !thorough && t > quickRuns {
			t = quickRuns
		}
		return f, t, true
	}
	var wg sync.WaitGroup
	for w := 0; w < workers; w++ {
		wg.Add(1)
		go func(w int) {
			defer wg.Done()
			for {
				f, t, ok := takeChunk()
				if !ok {
					return
				}
				wargs := []string{"worker", "-prop", prop, "-seed", strconv.FormatInt(seed, 10), "-from", strconv.Itoa(f), "-to", strconv.Itoa(t)}
				if thorough {
					wargs = append(wargs, "-thorough")
				}
				if f == 0 {
					wargs = append(wargs, "-sample")
				}
				cmd := exec.Command(self, wargs...)
				cmd.Env = append(os.Environ(), "GOMAXPROCS=2")
				cmd.Stderr = nil
				outb, err := cmd.Output()
				a.mu.Lock()
				gotSummary := false
				for _, line := range strings.Split(string(outb), "\n") {
					if strings.TrimSpace(line) == "" {
						continue
					}
					var wo WorkerOut
					if e := json.Unmarshal([]byte(line), &wo); e != nil {
						a.internal = append(a.internal, "unparsable worker output: "+line[:minInt(len(line), 200)])
						continue
					}
					switch wo.Kind {
					case "summary":
						gotSummary = true
						a.runs += wo.Runs
						a.steps += wo.Steps
						a.blocks += wo.Blocks
						a.txs += wo.Txs
						a.simNs += wo.SimNs
						for k, v := range wo.C {
							a.c[k] += v
						}
						for _, k := range wo.States {
							a.states[k] = true
						}
						for _, k := range wo.Trans {
							a.trans[k] = true
						}
						for _, k := range wo.Prints {
							a.prints[k] = true
						}
						for k, v := range wo.Digests {
							a.digests[k] = v
						}
						if wo.Sample != nil && a.sample == nil {
							a.sample = wo.Sample
						}
					case "violation":
						a.viols = append(a.viols, wo)
						nextMu.Lock()
						stop = true
						nextMu.Unlock()
					case "known":
						a.known[wo.KnownID]++
						if _, ok := a.knownEx[wo.KnownID]; !ok && wo.Viol != nil {
							a.knownEx[wo.KnownID] = wo.Viol.Detail
						}
					case "internal":
						a.internal = append(a.internal, fmt.Sprintf("run %d: %s", wo.Run, wo.Err))
					}
				}
				if err != nil || !gotSummary {
					a.internal = append(a.internal, fmt.Sprintf("worker for runs [%d,%d) failed: %v", f, t, err))
				}
				a.mu.Unlock()
			}
		}(w)
	}
	wg.Wait()
	wall := time.Since(t0)

	// confirm violations in a fresh process: the replay file must reproduce exactly
	exit := 0
	var confirmed []WorkerOut
	sort.Slice(a.viols, func(i, j int) bool { return a.viols[i].Run < a.viols[j].Run })
	seenSig := map[string]bool{}
	for _, v := range a.viols {
		if seenSig[v.Viol.Sig()] || len(seenSig) >= 3 {
			os.Remove(v.Replay)
			continue
		}
		seenSig[v.Viol.Sig()] = true
		cmd := exec.Command(self, "replay", v.Replay)
		outb, _ := cmd.CombinedOutput()
		if cmd.ProcessState != nil && cmd.ProcessState.ExitCode() == 1 && strings.Contains(string(outb), "sig="+v.Viol.Sig()) {
			confirmed = append(confirmed, v)
		} else {
			a.internal = append(a.internal, fmt.Sprintf("replay %s did not reproduce %s in a fresh process (simulator nondeterminism)", v.Replay, v.Viol.Sig()))
		}
	}
	for _, id := range sortedIntKeys(a.known) {
		for _, k := range known {
			if k.ID == id {
				fmt.Printf("KNOWN-FINDING: property=%s %s [%s; matched in %d run(s)]\n", k.Property, k.Description, k.ID, a.known[id])
			}
		}
	}
	writeEvidence(prop, tier, seed, a, wall, len(confirmed), known)
	for _, v := range confirmed {
		fmt.Printf("violation: %s: %s\n", v.Viol.Sig(), v.Viol.Detail)
		fmt.Printf("VIOLATION property=%s replay=%s\n", prop, v.Replay)
		exit = 1
	}
	fmt.Printf("runs=%d blocks=%d txs=%d steps=%d distinct_nontrivial=%d states=%d transitions=%d wall=%.1fs\n", a.runs, a.blocks, a.txs, a.steps, len(a.prints), len(a.states), len(a.trans), wall.Seconds())
	if z := zeroProbes(prop, a.c); len(z) > 0 && len(confirmed) == 0 && a.runs >= 300 {
		fmt.Fprintf(os.Stderr, "WARNING: reach probes stuck at zero in this batch (profile weakness, not a verdict): %v\n", z)
	}
	if len(a.internal) > 0 {
		for i, m := range a.internal {
			if i < 10 {
				fmt.Fprintln(os.Stderr, "INTERNAL:", m)
			}
		}
		if exit == 0 {
			exit = 2
		}
	}
	if a.runs == 0 && exit == 0 {
		fmt.Fprintln(os.Stderr, "INTERNAL: no runs executed")
		exit = 2
	}
	os.Exit(exit)
}

func zeroProbes(prop string, c map[string]int) []string {
	out := []string{}
	for _, p := range requiredProbes[prop] {
		if c[p] == 0 {
			out = append(out, p)
		}
	}
	return out
}

func faultCounts(c map[string]int) map[string]int {
	out := map[string]int{}
	for k, v := range c {
		if strings.HasPrefix(k, "fault_") || strings.HasPrefix(k, "clock_") || strings.HasPrefix(k, "tx_oog") || strings.HasPrefix(k, "targeted_") || k == "boundary_msg" || k == "multi_msg_tx" || k == "multi_msg_rollback" {
			out[k] = v
		}
	}
	return out
}

func probeCounts(c map[string]int) map[string]int {
	out := map[string]int{}
	for k, v := range c {
		if strings.HasPrefix(k, "probe_") || strings.HasPrefix(k, "g_") || strings.HasPrefix(k, "ok_") || strings.HasPrefix(k, "fail_") || strings.HasPrefix(k, "c05_") {
			out[k] = v
		}
	}
	return out
}

func writeEvidence(prop, tier string, seed int64, a *agg, wall time.Duration, nviol int, known []KnownFinding) {
	var samples []interface{}
	if a.sample != nil {
		samples = append(samples, a.sample)
	} else {
		samples = append(samples, map[string]interface{}{"note": "no sample trace was produced"})
	}
	matched := map[string]int{}
	for k, v := range a.known {
		matched[k] = v
	}
	ev := map[string]interface{}{
		"property_id": prop,
		"tier":        tier,
		"seed":        seed,
		"level":       "exploration",
		"wall_s":      wall.Seconds(),
		"violations":  nviol,
		"coverage": map[string]interface{}{
			"evaluations":         a.runs,
			"distinct_nontrivial": len(a.prints),
			"rule": "one evaluation = one simulated chain life (seeded swarm configuration, actors, mempool, proposer, clock and fault schedule) executed against the real module; a run is non-trivial when at least one of this property's trigger probes fired (" + strings.Join(relevantProbes[prop], ", ") + "); distinct = distinct fingerprint (sha256 over the executed op kinds, message types and the final state digest), counted over non-trivial runs only",
			"samples":              samples,
			"seeds":                fmt.Sprintf("VERIF_SEED=%d, runs 0..%d; run i uses splitmix64(seed, property, i)", seed, a.runs-1),
			"runs_per_hour":        float64(a.runs) / wall.Hours(),
			"blocks":               a.blocks,
			"transactions":         a.txs,
			"steps_checked":        a.steps,
			"simulated_time_hours": a.simNs / 3.6e12,
			"faults_fired":         faultCounts(a.c),
			"probes":               probeCounts(a.c),
			"tx_results":           map[string]int{"ok": a.c["tx_ok"], "error": a.c["tx_error"], "invalid": a.c["tx_invalid"], "panic": a.c["tx_panic"], "out_of_gas": a.c["tx_oog"]},
			"states":               len(a.states),
			"transitions":          len(a.trans),
			"state_measure":        "abstract context state = (lifecycle state, batch state, repeated, pending expiry event, pending new-batch event, responses vs requests, owner kind); transition = (abstract state, step verb, abstract state)",
			"components_real":      []string{"service module (handler, EndBlocker, genesis, keeper, types, gRPC and legacy queriers)", "app.SimApp / BaseApp ABCI (InitChain, BeginBlock, EndBlock, Commit, Query)", "SDK bank, auth, params, mint, distribution, staking, gov, crisis", "rootmulti + IAVL + cachekv + gaskv stores on an in-memory tm-db"},
			"components_stub":      []string{"transaction runner (ValidateBasic, cache context, tx hash / msg index injection, panic recovery, atomic commit)", "ante handler (signer = 20-byte key-holding sender; no fees, no sequence numbers)", "token keeper = repository's MockTokenKeeper; in multi-token runs a harness TokenKeeper (stake, gold/ugold scale 3, silver) plugged into the keeper's TokenKeeper seam, unit conversion by the repository's types.MockToken", "exchange-rate feed = the harness's 'oracle' module service (rate table changed and broken by trace ops)", "mempool, network, block proposer, BFT clock, off-chain providers/consumers/owners/strangers, a foreign module (simulated)"},
			"known_findings_matched": matched,
			"required_probes":        requiredProbes[prop],
			"required_probes_zero":   zeroProbes(prop, a.c),
			"internal_errors":        len(a.internal),
		},
		"assumptions": []string{
			"H1 a tx is atomic: effects of a failed or panicking tx are discarded (as baseapp.runTx does)",
			"H2 the host supplies a 32-byte tx hash unique per tx and the msg index to the handler context",
			"H3 ValidateBasic of every msg passes before any msg runs",
			"H4 a tx sender holds a key: 20-byte address, equal to the declared signer of every msg",
			"H5 a handler panic is recovered and fails the tx (and is reported under C20); injected out-of-gas is a fault, not a finding",
			"H6 block heights and block times strictly increase",
			"Tendermint consensus, p2p, signatures, fees and storage below CommitMultiStore are outside the simulated system",
			"sampling, not enumeration: a clean batch bounds nothing beyond the explored histories",
		},
	}
	evDir := filepath.Join(verifRoot, "evidence")
	if r := os.Getenv("VERIF_REPO"); r != "" && r != "/repo" {
		// a sensitivity run against a scratch copy of the repository: not evidence about /repo
		evDir = filepath.Join(verifRoot, "bin", "evidence-scratch")
	}
	os.MkdirAll(evDir, 0755)
	b, _ := json.MarshalIndent(ev, "", " ")
	ioutil.WriteFile(filepath.Join(evDir, prop+".json"), b, 0644)
}
