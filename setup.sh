#!/bin/bash
# Build the simulator from files on disk only (offline).
cd "$(dirname "$0")" && exec ./check.sh build
