package main

// Generator: the only consumer of randomness. One math/rand source per run, seeded from
// splitmix64(VERIF_SEED, property, run index). It looks at the executor's view (snapshot, ledgers) and emits
// one symbolic op at a time; each op is executed before the next is generated.

import (
	"fmt"
	"math/rand"
	"sort"
)

func splitmix64(x uint64) uint64 {
	x += 0x9e3779b97f4a7c15
	z := x
	z = (z ^ (z >> 30)) * 0xbf58476d1ce4e5b9
	z = (z ^ (z >> 27)) * 0x94d049bb133111eb
	return z ^ (z >> 31)
}

func runSeed(seed int64, property string, run int) int64 {
	h := uint64(seed)
	for _, c := range []byte(property) {
		h = splitmix64(h ^ uint64(c))
	}
	h = splitmix64(h ^ uint64(run)*0x9e3779b97f4a7c15)
	return int64(h & 0x7fffffffffffffff)
}

// Profile biases the swarm toward a property's trigger conditions.
type Profile struct {
	Name string
	// relative weights of actor activity per block
	WOwner, WConsumer, WProvider, WStranger, WModule, WControl float64
	Faults      map[string]bool // enabled fault kinds: drop delay dup reorder clock oog multimsg crash replicas params export expcont poor
	FaultFree   float64         // probability that a run has no faults at all
	ModSvcCalls float64         // probability that the run calls the module-reserved service (known finding M1)
	HugeFreq    float64         // probability that a run uses frequencies >= 2^62 (known finding D10)
	NoForeignImport float64     // probability that an export-and-continue lands on a binary without the foreign module
	MultiToken  float64         // probability that a run plugs in the multi-token keeper and exchange-rate feed (DESIGN §10.8)
	PrefixAddrs float64         // probability that a run uses prefix-related non-signing provider addresses
	Boundary    float64         // probability of boundary-shaped messages per stranger action
	Blocks      [2]int          // run length range (quick)
	BlocksThorough [2]int
	ExportProbe float64 // per block-boundary probability
	ExpCont     float64 // (unused)
	ExpContRuns float64 // fraction of runs that perform one export-and-continue
	Replicas    int
	QueryEvery  int
	TimePromos  float64
	ModuleCtx   float64 // probability the run uses foreign-module contexts
	BigInitialHeight float64
	Burst     float64 // per block probability of a same-height burst of one tight-budget consumer
}

type pendingTx struct {
	op    Op
	due   int // block index at which it becomes eligible
	order int
}

type Gen struct {
	rng  *rand.Rand
	cfg  *Config
	prof *Profile
	x    *Exec
	ops  []Op
	pool []pendingTx
	nLabel int
	block  int
	nBlocks int
	simT   int64 // offset ns from genesis of the current block
	faults map[string]bool

	// swarm choices for this run
	owners, providers, consumers []int
	stranger int
	poor     int
	rawProvs []string // non-signing provider refs
	svcNames []string
	useModSvcCalls, useHugeFreq, useModule bool
	rawResponders bool
	useExpCont, noRawAddrs bool
	stretch    bool
	whale      bool
	longLived  int // number of long-lived every-block contexts started so far
	longLivedRefs map[string]bool
	promoAnchors []int64 // interesting instants (offset ns) for targeted block times
	thorough bool
	didExpCont bool
	orderN int
	// multi-token runs draw their extra choices from a generator of their own, so that adding the dimension left every
	// other run of every (seed, property, index) exactly as it was
	multi bool
	mrng  *rand.Rand
}

func (g *Gen) label(prefix string) string {
	g.nLabel++
	return fmt.Sprintf("%s%d", prefix, g.nLabel)
}

func (g *Gen) chance(p float64) bool { return g.rng.Float64() < p }

func (g *Gen) pick(n int) int {
	if n <= 0 {
		return 0
	}
	return g.rng.Intn(n)
}

func pickStr(g *Gen, s []string) string { return s[g.pick(len(s))] }
func pickI64(g *Gen, s []int64) int64   { return s[g.pick(len(s))] }
func pickInt(g *Gen, s []int) int       { return s[g.pick(len(s))] }

// emit executes the op right away; returns false when the run must stop.
func (g *Gen) emit(op Op) bool {
	g.ops = append(g.ops, op)
	return g.x.Apply(&g.ops[len(g.ops)-1], len(g.ops)-1)
}

// submit: client -> network -> mempool (faults F1 drop, F2 delay, F3 duplicate).
func (g *Gen) submit(op Op, minDelay int) {
	if g.faults["drop"] && g.chance(0.04) {
		g.x.stats.inc("fault_drop")
		return
	}
	if g.faults["oog"] && op.K == "tx" && g.chance(0.04) {
		// F6a: the tx runs out of gas at an arbitrary store access
		t := *op.Tx
		t.Gas = uint64(1000 + g.pick(40000))
		op.Tx = &t
		g.x.stats.inc("fault_gas_limited_tx")
	}
	d := minDelay
	if g.faults["delay"] && g.chance(0.25) {
		d += 1 + g.pick(3)
		g.x.stats.inc("fault_delay")
	}
	g.orderN++
	g.pool = append(g.pool, pendingTx{op: op, due: g.block + d, order: g.orderN})
	if g.faults["dup"] && op.K == "tx" && g.chance(0.05) {
		dup := op
		t := *op.Tx
		t.Label = t.Label + "-retry"
		t.Msgs = append([]MsgOp{}, op.Tx.Msgs...)
		dup.Tx = &t
		g.orderN++
		g.pool = append(g.pool, pendingTx{op: dup, due: g.block + d + g.pick(3), order: g.orderN})
		g.x.stats.inc("fault_dup")
	}
}

// propose: the block proposer takes the due txs in a seeded order (F4); txs of one sender keep their order.
func (g *Gen) propose() []Op {
	var due, rest []pendingTx
	for _, p := range g.pool {
		if p.due <= g.block {
			due = append(due, p)
		} else {
			rest = append(rest, p)
		}
	}
	// cap per block; the overflow stays in the mempool
	maxTx := 12
	if g.stretch {
		maxTx = 40
	}
	sort.SliceStable(due, func(i, j int) bool { return due[i].order < due[j].order })
	if len(due) > maxTx {
		rest = append(rest, due[maxTx:]...)
		due = due[:maxTx]
	}
	g.pool = rest
	if g.faults["reorder"] && len(due) > 1 {
		// random interleaving that preserves each sender's relative order
		bySender := map[string][]pendingTx{}
		var senders []string
		for _, p := range due {
			s := senderOf(&p.op)
			if _, ok := bySender[s]; !ok {
				senders = append(senders, s)
			}
			bySender[s] = append(bySender[s], p)
		}
		var out []pendingTx
		for len(senders) > 0 {
			i := g.pick(len(senders))
			s := senders[i]
			out = append(out, bySender[s][0])
			bySender[s] = bySender[s][1:]
			if len(bySender[s]) == 0 {
				senders = append(senders[:i], senders[i+1:]...)
			}
		}
		due = out
		g.x.stats.inc("fault_reorder")
	}
	ops := make([]Op, len(due))
	for i, p := range due {
		ops[i] = p.op
	}
	return ops
}

func senderOf(op *Op) string {
	if op.Tx != nil {
		return op.Tx.Sender
	}
	if op.Mod != nil {
		return "mod"
	}
	return ""
}

// nextBlockTime: F5 — a mixture of tiny, typical and huge gaps, plus instants the module compares against.
func (g *Gen) nextBlockTime() int64 {
	const sec = int64(1e9)
	if g.faults["clock"] {
		if len(g.promoAnchors) > 0 && g.chance(0.30) {
			// aim at an anchor that lies in the future: exactly, 1ns before, 1ns after
			var fut []int64
			for _, a := range g.promoAnchors {
				if a > g.simT+1 {
					fut = append(fut, a)
				}
			}
			if len(fut) > 0 {
				sort.Slice(fut, func(i, j int) bool { return fut[i] < fut[j] })
				a := fut[g.pick(minInt(len(fut), 3))]
				off := []int64{-1, 0, 0, 1}[g.pick(4)]
				if a+off > g.simT {
					g.x.stats.inc("clock_targeted")
					g.simT = a + off
					return g.simT
				}
			}
		}
		switch g.pick(10) {
		case 0:
			g.simT += 1
			g.x.stats.inc("clock_1ns")
		case 1:
			g.simT += sec
		case 2:
			g.simT += int64(60+g.pick(3600)) * sec
			g.x.stats.inc("clock_jump")
		case 3:
			g.simT += int64(1+g.pick(30)) * 24 * 3600 * sec
			g.x.stats.inc("clock_jump_days")
		default:
			g.simT += 5*sec + int64(g.pick(int(sec)))
		}
		return g.simT
	}
	g.simT += 5 * sec
	return g.simT
}

func minInt(a, b int) int {
	if a < b {
		return a
	}
	return b
}

func (g *Gen) addAnchor(t int64) {
	if t > 0 && len(g.promoAnchors) < 64 {
		g.promoAnchors = append(g.promoAnchors, t)
	}
}

// Run generates and executes one whole run. Returns the trace.
func (g *Gen) Run() []Op {
	for g.block = 0; g.block < g.nBlocks; g.block++ {
		if !g.oneBlock(true) {
			return g.ops
		}
	}
	// drain: fault-free blocks, no new work; in-flight provider responses may still arrive
	for i := 0; i < g.cfg.DrainBlocks; i++ {
		g.block++
		if !g.oneBlock(false) {
			return g.ops
		}
	}
	g.x.Finish()
	return g.ops
}

var ratePool = []string{"1.0", "1", "0.5", "2", "2.5", "0.001", "1000", "0.333333333333333333", "0", "0.000000000000000001", "7", "1.999999999999999999"}

// genRate: the exchange-rate feed moves between blocks (multi-token runs) — a new value, or a feed fault
func (g *Gen) genRate() Op {
	pair := []string{"ugold-stake", "silver-stake"}[g.mrng.Intn(2)]
	var rate string
	switch r := g.mrng.Float64(); {
	case r < 0.70:
		rate = ratePool[g.mrng.Intn(len(ratePool))]
	case r < 0.88:
		rate = "" // the feed has no value for the pair
		g.x.stats.inc("fault_rate_missing")
	case r < 0.94:
		rate = "!body"
		g.x.stats.inc("fault_rate_malformed")
	default:
		rate = "!nan"
		g.x.stats.inc("fault_rate_malformed")
	}
	g.x.stats.inc("fault_rate_change")
	return Op{K: "rate", Pair: pair, Rate: rate}
}

func (g *Gen) oneBlock(active bool) bool {
	if g.multi && g.mrng.Float64() < 0.12 {
		// feed faults belong to the active phase; during the drain the feed only recovers
		op := g.genRate()
		if !active && (op.Rate == "" || op.Rate[0] == '!') {
			op.Rate = "1.0"
		}
		if !g.emit(op) {
			return false
		}
	}
	t := g.nextBlockTime()
	if !g.emit(Op{K: "begin", T: t}) {
		return false
	}
	pp := 0.03
	if g.cfg.Property == "C14" || g.cfg.Property == "C04" {
		pp = 0.08
	}
	if active && g.faults["params"] && g.chance(pp) {
		if !g.emit(Op{K: "params", Par: g.genParams()}) {
			return false
		}
	}
	if active {
		g.actorsAct()
	} else {
		g.pool = nil // faults stop: nothing is in flight any more except what is on chain
	}
	txs := g.propose()
	crashAt := -1
	if active && g.faults["crash"] && g.chance(0.08) {
		crashAt = g.pick(len(txs) + 1)
	}
	for i := range txs {
		if i == crashAt {
			if !g.emit(Op{K: "crash", Replica: g.pickReplica()}) {
				return false
			}
		}
		if !g.emit(txs[i]) {
			return false
		}
	}
	if crashAt == len(txs) {
		if !g.emit(Op{K: "crash", Replica: g.pickReplica()}) {
			return false
		}
	}
	if !g.emit(Op{K: "end"}) {
		return false
	}
	if active && g.faults["crash"] && g.chance(0.05) {
		if !g.emit(Op{K: "crash", Replica: g.pickReplica()}) {
			return false
		}
	}
	if active && g.faults["export"] && g.chance(g.prof.ExportProbe) {
		if !g.emit(Op{K: "probe"}) {
			return false
		}
	}
	// (an export is worth more while several contexts are alive)
	if active && g.useExpCont && g.faults["expcont"] && !g.didExpCont && g.block > g.nBlocks/3 && g.chance(map[bool]float64{false: 0.1, true: 0.45}[len(g.x.cur.Ctx) >= 2]) {
		g.didExpCont = true
		eop := Op{K: "expcont"}
		if g.useModule && g.mrng.Float64() < g.prof.NoForeignImport {
			// the new chain's binary does not contain the foreign module: its (paused) contexts stay behind, nobody may
			// drive them; the consumers named in them keep trying
			eop.NoForeign = true
			g.useModule = false
			g.x.stats.inc("fault_import_without_foreign_module")
		}
		if !g.emit(eop) {
			return false
		}
	}
	return true
}

func (g *Gen) pickReplica() int {
	if g.cfg.Replicas <= 1 {
		return 0
	}
	return g.pick(g.cfg.Replicas)
}

func (g *Gen) genParams() *ParamsOp {
	p := &ParamsOp{}
	if (g.cfg.Property == "C14" && g.chance(0.6)) || (g.cfg.Property == "C04" && g.chance(0.3)) {
		// governance moves the minimum deposit (only in this profile: C14 is the property that speaks about
		// "the parameters in force")
		if g.chance(0.5) {
			p.MinDeposit = pickI64(g, []int64{1, 10, 100, 6000, 20000})
		} else {
			p.MinDepositMultiple = pickI64(g, []int64{1, 2, 10, 200, 1000, 5000})
		}
		g.x.stats.inc("fault_deposit_param_change")
		return p
	}
	if g.cfg.Property == "C20" && g.chance(0.15) {
		p.MinDeposit = pickI64(g, []int64{1, 1000})
		p.MinDepositDenom = pickStr(g, []string{"uiris", "atom"})
		g.x.stats.inc("fault_min_deposit_other_denom")
		return p
	}
	switch g.pick(4) {
	case 0:
		p.ServiceFeeTax = pickStr(g, []string{"0", "0.01", "0.1", "0.5", "0.999999"})
	case 1:
		p.SlashFraction = pickStr(g, []string{"0", "0.001", "0.1", "0.5", "1"})
	case 2:
		p.MaxRequestTimeout = pickI64(g, []int64{1, 2, 3, 5, 8, 12, 100})
	case 3:
		p.ArbitrationNs = pickI64(g, durations)
		p.ComplaintNs = pickI64(g, durations)
	}
	return p
}

var durations = []int64{1, 1e9, 3600e9, 5 * 24 * 3600e9, 15 * 24 * 3600e9}
