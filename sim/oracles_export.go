package main

// C19: zero-height export probe (non-destructive, on a cached check-state context) and export-and-continue
// (whole application genesis -> JSON -> InitChain of a fresh app -> keep simulating).

import (
	"bytes"
	"fmt"
	"runtime/debug"
	"strings"

	tmproto "github.com/tendermint/tendermint/proto/tendermint/types"
	dbm "github.com/tendermint/tm-db"

	service "github.com/irismod/service"
	"github.com/irismod/service/types"
)

func guard(f func()) (panicMsg string, fromService bool) {
	defer func() {
		if r := recover(); r != nil {
			st := string(debug.Stack())
			panicMsg = fmt.Sprintf("%v || %s", r, trimStack([]byte(st)))
			fromService = strings.Contains(st, "irismod/service.") || strings.Contains(st, "irismod/service/keeper") || strings.Contains(st, "irismod/service/types") || strings.Contains(st, "/repo/genesis.go") || strings.Contains(st, "/repo/keeper") || strings.Contains(st, "/repo/module.go")
		}
	}()
	f()
	return "", false
}

// expectedZeroHeightRefunds: who must receive what when the chain is prepared for a zero-height export.
func expectedZeroHeightRefunds(s *Snap) map[string]int64 {
	exp := map[string]int64{}
	var total int64
	for _, rid := range sortedBoolKeys(s.Active15) {
		q, ok := s.Req[rid]
		if !ok {
			continue
		}
		c, ok := s.Ctx[hx(q.RequestContextId)]
		if !ok {
			continue
		}
		fee := coinsStake(q.ServiceFee)
		exp[hx(c.Consumer)] += fee
		total += fee
	}
	for _, e := range s.Earned {
		dl := len(e.Coin.Denom)
		if len(e.KeyRest) <= dl {
			continue
		}
		prov := e.KeyRest[:len(e.KeyRest)-dl]
		exp[hx(prov)] += e.Coin.Amount.Int64()
		total += e.Coin.Amount.Int64()
	}
	exp[hx(requestAcc)] -= total
	for k, v := range exp {
		if v == 0 {
			delete(exp, k)
		}
	}
	return exp
}

func (x *Exec) checkPrepared(pre, mid *Snap, where string) bool {
	attrs := map[string]string{}
	if len(pre.Earned) > 0 {
		attrs["earnings_pending"] = "true"
	}
	if bal := mid.BalOf(requestAcc); bal != 0 {
		x.viol("C19", "escrow_left", fmt.Sprintf("%s at height %d: escrow holds %d after preparing the zero-height export", where, pre.Height, bal), attrs)
		return false
	}
	if d := diffMaps(expectedZeroHeightRefunds(pre), balDeltas(pre, mid), nil); d != "" {
		x.viol("C19", "refund_recipient", fmt.Sprintf("%s at height %d: %s", where, pre.Height, d), attrs)
		return false
	}
	for _, id := range mid.CtxIDs() {
		c := mid.Ctx[id]
		if c.State != types.PAUSED || c.BatchState != types.BATCHCOMPLETED || c.BatchRequestCount != 0 || c.BatchResponseCount != 0 {
			x.viol("C19", "context_not_reset", fmt.Sprintf("%s: context %s left in state %s / batch %s / counts %d,%d", where, id[:12], c.State, c.BatchState, c.BatchRequestCount, c.BatchResponseCount), nil)
			return false
		}
	}
	return true
}

func (x *Exec) probeStats(pre *Snap) {
	x.stats.inc("probe_export")
	if len(pre.Active15) > 0 {
		x.stats.inc("probe_export_with_pending_requests")
	}
	if len(pre.Earned) > 0 {
		x.stats.inc("probe_export_with_earnings")
	}
	if len(pre.Withdraw) > 0 {
		x.stats.inc("probe_export_with_withdraw_address")
	}
	for _, id := range pre.CtxIDs() {
		x.stats.inc("probe_export_ctx_" + pre.Ctx[id].State.String())
	}
}

func (x *Exec) doProbe(op *Op) {
	h := x.H()
	pre := x.cur
	x.probeStats(pre)
	x.stats.inc("fault_export_probe")
	base := h.app.BaseApp.NewContext(true, tmproto.Header{ChainID: h.chain, Height: h.Height(), Time: h.Time()})
	ctx, _ := base.CacheContext()
	k := h.app.ServiceKeeper

	if p, _ := guard(func() { service.PrepForZeroHeightGenesis(ctx, k) }); p != "" {
		x.viol("C19", "prep_panic", "PrepForZeroHeightGenesis panicked: "+p, nil)
		return
	}
	mid := h.TakeSnapshot(ctx)
	if !x.checkPrepared(pre, mid, "export probe") {
		return
	}
	var gs *types.GenesisState
	if p, _ := guard(func() { gs = service.ExportGenesis(ctx, k) }); p != "" {
		x.viol("C19", "export_panic", "ExportGenesis panicked: "+p, nil)
		return
	}
	attrs := map[string]string{}
	if len(gs.WithdrawAddresses) > 0 {
		attrs["withdraw_addresses"] = "present"
	}
	if len(gs.RequestContexts) > 0 {
		attrs["request_contexts"] = "present"
	}
	if snapHasNon20(mid) {
		attrs["address_len_not_20"] = "true"
	}
	if err := types.ValidateGenesis(*gs); err != nil {
		x.viol("C19", "validate", fmt.Sprintf("exported genesis fails validation at height %d: %v", pre.Height, err), attrs)
		return
	}
	cdc := h.app.AppCodec()
	var bz []byte
	if p, _ := guard(func() { bz = cdc.MustMarshalJSON(gs) }); p != "" {
		x.viol("C19", "json_roundtrip", "genesis cannot be written as JSON: "+p, attrs)
		return
	}
	// the way a node validates a genesis file: the module's own entry point on the JSON document
	if err := (service.AppModuleBasic{}).ValidateGenesis(cdc, nil, bz); err != nil && !snapHasNon20(mid) {
		x.viol("C19", "validate", fmt.Sprintf("exported genesis document fails the module's genesis validation at height %d: %v", pre.Height, err), attrs)
		return
	}
	var gs2 types.GenesisState
	if err := cdc.UnmarshalJSON(bz, &gs2); err != nil {
		x.viol("C19", "json_roundtrip", fmt.Sprintf("exported genesis cannot be read back from JSON at height %d: %v", pre.Height, err), attrs)
		return
	}
	bz2 := cdc.MustMarshalJSON(&gs2)
	if !bytes.Equal(bz, bz2) {
		x.viol("C19", "json_roundtrip", "genesis differs after a JSON round trip", attrs)
		return
	}
	// import into a fresh chain and export again
	fresh := NewHost(&Config{NAccounts: 0, InitialHeight: 1, GenesisTime: x.cfg.GenesisTime, MaxRequestTimeout: 100, MinDepositMultiple: 1, MinDeposit: 1,
		ServiceFeeTax: "0", SlashFraction: "0", ArbitrationNs: 1, ComplaintNs: 1, MultiToken: x.cfg.MultiToken, Rates: x.H().rates})
	fctx := fresh.Ctx()
	if p, _ := guard(func() { service.InitGenesis(fctx, fresh.app.ServiceKeeper, gs2) }); p != "" {
		x.viol("C19", "import_panic", "InitGenesis of the exported genesis panicked: "+p, attrs)
		return
	}
	gs3 := service.ExportGenesis(fctx, fresh.app.ServiceKeeper)
	bz3 := cdc.MustMarshalJSON(gs3)
	if !bytes.Equal(bz, bz3) {
		x.viol("C19", "reexport_differs", fmt.Sprintf("height %d: genesis exported from the importing chain differs: %s", pre.Height, firstDiff(bz, bz3)), attrs)
		return
	}
	imp := fresh.TakeSnapshot(fctx)
	if d := indexRules(imp); d != "" {
		x.viol("C19", "import_index", "imported store: "+d, attrs)
		return
	}
	// every binding / definition / context / withdrawal address of the source is in the import
	if len(imp.Bindings) != len(mid.Bindings) || len(imp.Defs) != len(mid.Defs) || len(imp.Ctx) != len(mid.Ctx) || len(imp.Withdraw) != len(mid.Withdraw) {
		x.viol("C19", "reexport_differs", fmt.Sprintf("import holds %d/%d/%d/%d bindings/definitions/contexts/withdraw addresses, source %d/%d/%d/%d",
			len(imp.Bindings), len(imp.Defs), len(imp.Ctx), len(imp.Withdraw), len(mid.Bindings), len(mid.Defs), len(mid.Ctx), len(mid.Withdraw)), attrs)
		return
	}
	for _, bk := range mid.BindingKeys() {
		a, b := mid.Bindings[bk], imp.Bindings[bk]
		if b == nil || pm(a) != pm(b) {
			x.viol("C19", "reexport_differs", fmt.Sprintf("binding %s differs after import", bkShow(bk)), attrs)
			return
		}
	}
	for _, id := range mid.CtxIDs() {
		a, b := mid.Ctx[id], imp.Ctx[id]
		if b == nil || pm(a) != pm(b) {
			x.viol("C19", "reexport_differs", fmt.Sprintf("context %s differs after import", id[:12]), attrs)
			return
		}
	}
	for _, o := range sortedBytesKeys(mid.Withdraw) {
		if !bytes.Equal(mid.Withdraw[o], imp.Withdraw[o]) {
			x.viol("C19", "reexport_differs", fmt.Sprintf("withdrawal address of %s differs after import", o), attrs)
			return
		}
	}
	if pm(&mid.Params) != pm(&imp.Params) {
		x.viol("C19", "reexport_differs", "parameters differ after import", attrs)
		return
	}
	x.stats.inc("probe_export_roundtrip_ok")
}

func firstDiff(a, b []byte) string {
	n := minInt(len(a), len(b))
	i := 0
	for i < n && a[i] == b[i] {
		i++
	}
	lo := maxInt(0, i-40)
	return fmt.Sprintf("at byte %d: %q vs %q", i, a[lo:minInt(len(a), i+40)], b[lo:minInt(len(b), i+40)])
}

// indexRules: C15's index rules on a snapshot (price terms = text, ownership indexes complete).
func indexRules(s *Snap) string {
	for _, bk := range s.BindingKeys() {
		b := s.Bindings[bk]
		p, ok := s.Pricing[bk]
		if !ok {
			return fmt.Sprintf("binding %s has no price terms", bkShow(bk))
		}
		hp, err := ParseHPricing(b.Pricing)
		if err != nil {
			return "pricing text unreadable"
		}
		if d := pricingMatches(p, hp); d != "" {
			return fmt.Sprintf("binding %s: %s", bkShow(bk), d)
		}
		if o, ok := s.OwnerOf[hx(b.Provider)]; !ok || !bytes.Equal(o, b.Owner) {
			return fmt.Sprintf("provider of binding %s has no/wrong owner record", bkShow(bk))
		}
		if len(b.Owner) == 20 {
			if !s.OwnerBind[hx(b.Owner)+"|"+b.ServiceName+"|"+hx(b.Provider)] {
				return fmt.Sprintf("binding %s missing from the owner-binding index", bkShow(bk))
			}
			if !s.OwnerProv[hx(b.Owner)+"|"+hx(b.Provider)] {
				return fmt.Sprintf("binding %s missing from the owner-provider index", bkShow(bk))
			}
		}
	}
	return ""
}

// doExportContinue: F9. The whole application is exported at zero height and a fresh chain is started from the file.
func (x *Exec) doExportContinue(op *Op) {
	if len(x.hosts) != 1 {
		return
	}
	h := x.H()
	pre := x.cur
	x.probeStats(pre)
	x.stats.inc("fault_export_and_continue")
	// host contract H7: a zero-height export runs the service module's own preparation first (the repository's
	// SimApp.prepForZeroHeightGenesis does not call it; a production app does)
	chk := h.app.BaseApp.NewContext(true, tmproto.Header{ChainID: h.chain, Height: h.Height(), Time: h.Time()})
	if p, _ := guard(func() { service.PrepForZeroHeightGenesis(chk, h.app.ServiceKeeper) }); p != "" {
		x.viol("C19", "prep_panic", "PrepForZeroHeightGenesis panicked: "+p, nil)
		return
	}
	var appState []byte
	p, fromSvc := guard(func() {
		exp, err := h.app.ExportAppStateAndValidators(true, nil)
		if err != nil {
			panic(err)
		}
		appState = exp.AppState
	})
	if p != "" {
		if fromSvc {
			x.viol("C19", "prep_panic", "zero-height export panicked: "+p, nil)
		} else {
			x.stats.inc("expcont_foreign_panic")
			x.stopped = true
		}
		return
	}
	// what the preparation did is visible on the check state
	mid := h.TakeSnapshot(h.app.BaseApp.NewContext(true, tmproto.Header{ChainID: h.chain, Height: h.Height(), Time: h.Time()}))
	if !x.checkPrepared(pre, mid, "export-and-continue") && x.stopped {
		return // (only a run that arms C19 ends here; the others go on to live on the restarted chain)
	}
	if len(mid.Ctx) >= 2 {
		x.stats.inc("probe_export_with_2_live_contexts")
	}
	// what the preparation wrote back is judged before the import is attempted: a record it corrupted may well make
	// the import fail, and then there is no restarted chain to look at
	if exportCtxRules(x, pre, mid, "in the state prepared for the zero-height export"); x.stopped {
		return
	}
	nh := &Host{cfg: h.cfg, db: dbm.NewMemDB(), chain: h.chain, generation: h.generation + 1, rates: copyRates(h.rates), noForeign: h.noForeign || op.NoForeign}
	nh.app = newApp(nh.db, h.cfg.MultiToken)
	nh.registerForeign()
	p, fromSvc = guard(func() { nh.initChain(appState, 1, h.Time()) })
	if p != "" {
		attrs := map[string]string{}
		if len(pre.Withdraw) > 0 {
			attrs["withdraw_addresses"] = "present"
		}
		if len(pre.Ctx) > 0 {
			attrs["request_contexts"] = "present"
		}
		if snapHasNon20(pre) {
			attrs["address_len_not_20"] = "true"
		}
		if fromSvc || strings.Contains(p, "irismod.service") || strings.Contains(p, "RequestContext") {
			x.viol("C19", "import_panic", "a fresh chain cannot start from the exported genesis: "+p, attrs)
		} else {
			x.stats.inc("expcont_foreign_panic")
			x.stopped = true
		}
		return
	}
	x.hosts[0] = nh
	x.lastT = h.Time()
	post := nh.TakeSnapshot(nh.Ctx())
	// the imported service state equals the prepared one (definitions, bindings, withdrawal addresses, contexts, params)
	if x.armed["C19"] {
		if len(post.Bindings) != len(mid.Bindings) || len(post.Defs) != len(mid.Defs) || len(post.Ctx) != len(mid.Ctx) || len(post.Withdraw) != len(mid.Withdraw) {
			x.viol("C19", "reexport_differs", "the restarted chain holds a different number of records", nil)
			return
		}
		for _, bk := range mid.BindingKeys() {
			if b := post.Bindings[bk]; b == nil || pm(b) != pm(mid.Bindings[bk]) {
				x.viol("C19", "reexport_differs", fmt.Sprintf("binding %s differs on the restarted chain", bkShow(bk)), nil)
				return
			}
		}
		for _, id := range mid.CtxIDs() {
			if c := post.Ctx[id]; c == nil || pm(c) != pm(mid.Ctx[id]) {
				x.viol("C19", "reexport_differs", fmt.Sprintf("context %s differs on the restarted chain", id[:12]), nil)
				return
			}
		}
		if d := indexRules(post); d != "" {
			x.viol("C19", "import_index", "restarted chain: "+d, nil)
			return
		}
	}
	// the whole export-and-restart is one step for the armed oracles (nothing but the designed refunds may have
	// happened to deposits, bindings, contexts, balances)
	x.steps++
	er := &StepRec{Idx: x.steps, OpIndex: x.opIndex, Kind: "export", Op: op, Pre: pre, Post: post, Height: post.Height, Time: post.Time}
	x.logf("%d export h=%d d=%s", er.Idx, er.Height, post.Digest()[:16])
	x.runOracles(er)
	if !x.stopped {
		exportStepRules(x, pre, post)
	}
	if x.stopped {
		return
	}
	x.cur = post
	x.tr.rebase(post)
	x.tr.Generation++
	x.memoReq = map[string]string{}
	x.blockOps = x.blockOps[:0]
	x.stats.inc("probe_export_continue_ok")
}

// snapHasNon20: does the exported state contain an account address whose length is not 20 bytes? (The SDK's JSON
// codec for addresses accepts only 20-byte addresses; the service module accepts any non-empty provider or
// withdrawal address.)
func snapHasNon20(s *Snap) bool {
	for _, b := range s.Bindings {
		if len(b.Provider) != 20 || len(b.Owner) != 20 {
			return true
		}
	}
	for o, w := range s.Withdraw {
		if len(o) != 40 || len(w) != 20 {
			return true
		}
	}
	for _, c := range s.Ctx {
		if len(c.Consumer) != 20 {
			return true
		}
		for _, p := range c.Providers {
			if len(p) != 20 {
				return true
			}
		}
	}
	return false
}

// exportStepRules: what a zero-height export and restart must leave alone, judged for whichever property is armed:
// the governance parameters the property depends on, and every context's batch counter.
func exportStepRules(x *Exec, pre, post *Snap) {
	type dep struct{ prop, what string; same bool }
	a, b := pre.Params, post.Params
	deps := []dep{
		{"C02", "service fee tax", a.ServiceFeeTax.Equal(b.ServiceFeeTax)},
		{"C01", "service fee tax", a.ServiceFeeTax.Equal(b.ServiceFeeTax)},
		{"C13", "service fee tax", a.ServiceFeeTax.Equal(b.ServiceFeeTax)},
		{"C04", "slash fraction", a.SlashFraction.Equal(b.SlashFraction)},
		{"C03", "slash fraction / arbitration / complaint periods", a.SlashFraction.Equal(b.SlashFraction) && a.ArbitrationTimeLimit == b.ArbitrationTimeLimit && a.ComplaintRetrospect == b.ComplaintRetrospect},
		{"C04", "minimum deposit parameters", a.MinDeposit.IsEqual(b.MinDeposit) && a.MinDepositMultiple == b.MinDepositMultiple},
		{"C14", "minimum deposit parameters", a.MinDeposit.IsEqual(b.MinDeposit) && a.MinDepositMultiple == b.MinDepositMultiple},
		{"C08", "maximum request timeout", a.MaxRequestTimeout == b.MaxRequestTimeout},
		{"C06", "maximum request timeout", a.MaxRequestTimeout == b.MaxRequestTimeout},
	}
	for _, d := range deps {
		if x.armed[d.prop] && !d.same {
			x.viol(d.prop, "params_changed_by_export", fmt.Sprintf("the %s in force before the zero-height export is not the one in force on the restarted chain", d.what), nil)
			return
		}
	}
	exportCtxRules(x, pre, post, "on the restarted chain")
}

// exportCtxRules: a context that survives a zero-height export keeps everything but its state, batch state and
// request counts (it comes back paused with no batch in flight); each field is judged for the property that depends on it.
func exportCtxRules(x *Exec, pre, s *Snap, where string) {
	for _, id := range pre.CtxIDs() {
		pc := pre.Ctx[id]
		q, ok := s.Ctx[id]
		if !ok {
			continue
		}
		if (x.armed["C10"] || x.armed["C09"]) && q.BatchCounter != pc.BatchCounter {
			p := "C10"
			if !x.armed["C10"] {
				p = "C09"
			}
			x.viol(p, "counter_changed_by_export", fmt.Sprintf("context %s: batch counter %d before the export, %d %s", id[:12], pc.BatchCounter, q.BatchCounter, where), nil)
			return
		}
		if x.armed["C09"] && ctxImmutableChanged(pc, q) {
			x.viol("C09", "immutable_changed", fmt.Sprintf("an immutable field of context %s is different %s", id[:12], where), map[string]string{"context_origin": x.ctxOrigin(id), "step": "export"})
			return
		}
		if x.armed["C10"] && (q.Timeout != pc.Timeout || q.RepeatedFrequency != pc.RepeatedFrequency || q.RepeatedTotal != pc.RepeatedTotal) {
			x.viol("C10", "schedule_changed_by_export", fmt.Sprintf("context %s: timeout/frequency/total %d/%d/%d before the export, %d/%d/%d %s", id[:12], pc.Timeout, pc.RepeatedFrequency, pc.RepeatedTotal, q.Timeout, q.RepeatedFrequency, q.RepeatedTotal, where), nil)
			return
		}
		if x.armed["C12"] && (q.ResponseThreshold != pc.ResponseThreshold || q.ModuleName != pc.ModuleName) {
			x.viol("C12", "callback_terms_changed_by_export", fmt.Sprintf("context %s: owning module/threshold %q/%d before the export, %q/%d %s", id[:12], pc.ModuleName, pc.ResponseThreshold, q.ModuleName, q.ResponseThreshold, where), nil)
			return
		}
		sameProv := len(q.Providers) == len(pc.Providers)
		for i := 0; sameProv && i < len(q.Providers); i++ {
			sameProv = bytes.Equal(q.Providers[i], pc.Providers[i])
		}
		for _, prop := range []string{"C06", "C07"} {
			if x.armed[prop] && (!sameProv || !q.ServiceFeeCap.IsEqual(pc.ServiceFeeCap)) {
				x.viol(prop, "terms_changed_by_export", fmt.Sprintf("context %s: provider list / fee cap (%d, %s) before the export, (%d, %s) %s", id[:12], len(pc.Providers), pc.ServiceFeeCap, len(q.Providers), q.ServiceFeeCap, where), nil)
				return
			}
		}
	}
}
