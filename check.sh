#!/bin/bash
# usage: ./check.sh <property> <quick|thorough>   |   ./check.sh replay <trace.json>   |   ./check.sh build
# Always rebuilds the simulator against /repo's current working tree (incremental go build), then runs it.
# exit 0 = property held on everything explored; 1 = VIOLATION (replay file printed); 2 = harness/build trouble.
set -u
cd "$(dirname "$0")"
ROOT="$(pwd)"
export GOFLAGS=-mod=mod GOPROXY=off GOSUMDB=off GOTOOLCHAIN=local CGO_ENABLED=0
export VERIF_ROOT="$ROOT"
mkdir -p "$ROOT/bin" "$ROOT/evidence" "$ROOT/replays"
build() {
  local tmp="$ROOT/bin/svcsim.$$"
  local repo="${VERIF_REPO:-/repo}"
  cp "$repo/go.sum" "$ROOT/sim/go.sum" 2>/dev/null
  if [ "$repo" = "/repo" ]; then
    ( cd "$ROOT/sim" && go build -o "$tmp" . ) >"$ROOT/bin/build.$$.log" 2>&1
  else
    # background sweeps may build against a snapshot of the repository (VERIF_REPO); registered checks never set it
    sed "s#=> /repo#=> $repo#" "$ROOT/sim/go.mod" > "$ROOT/bin/alt.$$.mod"
    cp "$ROOT/sim/go.sum" "$ROOT/bin/alt.$$.sum"
    ( cd "$ROOT/sim" && go build -modfile="$ROOT/bin/alt.$$.mod" -o "$tmp" . ) >"$ROOT/bin/build.$$.log" 2>&1
  fi
  local rc=$?
  rm -f "$ROOT/bin/alt.$$.mod" "$ROOT/bin/alt.$$.sum"
  if [ $rc -ne 0 ]; then
    echo "BUILD FAILED (simulator against /repo working tree):" >&2
    tail -40 "$ROOT/bin/build.$$.log" >&2
    rm -f "$tmp" "$ROOT/bin/build.$$.log"
    return 2
  fi
  rm -f "$ROOT/bin/build.$$.log"
  # this invocation runs its own freshly built binary (BUILT); bin/svcsim is only a convenience copy
  BUILT="$ROOT/bin/svcsim.run.$$"
  cp -f "$tmp" "$BUILT"
  mv -f "$tmp" "$ROOT/bin/svcsim"
  return 0
}
cmd="${1:-}"
case "$cmd" in
  build) build; rc=$?; rm -f "${BUILT:-}"; exit $rc ;;
  replay)
    build || exit 2
    "$BUILT" replay "${2:?trace file}"; rc=$?; rm -f "$BUILT"; exit $rc ;;
  selftest-determinism)
    build || exit 2
    shift
    "$BUILT" selftest-determinism "$@"; rc=$?; rm -f "$BUILT"; exit $rc ;;
  C[0-9][0-9])
    tier="${2:-${VERIF_TIER:-quick}}"
    build || exit 2
    "$BUILT" check "$cmd" "$tier"
    rc=$?
    rm -f "$BUILT"
    exit $rc ;;
  *) echo "usage: $0 <C01..C20> <quick|thorough> | replay <file> | build" >&2; exit 2 ;;
esac
