package main

import "encoding/hex"

func hexDecode(s string) ([]byte, error) { return hex.DecodeString(s) }
